/-
  MultiProofs.OwnView — the element-wise copy loops walk a view in canonical order (`elemAddrs_eq`, from the iterator theorems of C02
  and the enumeration lemma of OwnBox); construction of an array from a view (`viewCtor_outcome`).  Helper lemmas for C04.
-/
import MultiProofs.OwnObs
import MultiProofs.C02

namespace Multi
namespace Own
variable {α : Type}
open C02

theorem wf_exts_ok {l : Layout} (h : l.WF) : ExtsOK l.exts := by
  intro e he
  simp only [Layout.exts, List.mem_map] at he
  obtain ⟨d, hd, rfl⟩ := he
  rcases (h d hd).cases with h0 | ⟨f, n, hn, _, _, _, hext, _⟩
  · rw [Dim.ext_of_nelems_zero h0]; exact Int.le_refl _
  · rw [hext]; simp; omega

/-- rank of the j-th tuple of a box -/
theorem boxIndices_getElem {xs : List Ext} (hok : ExtsOK xs) (j : Nat) (hj : j < (boxIndices xs).length) :
    InBox xs (boxIndices xs)[j] ∧ rowMajor xs (boxIndices xs)[j] = (j : Int) := by
  have hin := boxIndices_inBox xs hok _ (List.getElem_mem hj)
  refine ⟨hin, ?_⟩
  have hr := boxIndices_rank xs hok
  have h1 : ((boxIndices xs).map (fun idx => (rowMajor xs idx).toNat))[j]? = (List.range (nElems xs).toNat)[j]? := by rw [hr]
  rw [List.getElem?_map, List.getElem?_eq_getElem hj] at h1
  simp only [Option.map_some] at h1
  have hlen : (boxIndices xs).length = (nElems xs).toNat := by
    have := congrArg List.length hr; simpa using this
  rw [List.getElem?_range (by omega)] at h1
  have := Option.some.inj h1
  obtain ⟨b0, _⟩ := rowMajor_bounds hok hin
  omega

theorem boxIndices_length {xs : List Ext} (hok : ExtsOK xs) : (boxIndices xs).length = (nElems xs).toNat := by
  have := congrArg List.length (boxIndices_rank xs hok); simpa using this

theorem nElems_eq_prodSizes : ∀ (l : Layout), l.WF → nElems l.exts = prodSizes (Layout.sizes l) := by
  intro l hl
  induction l with
  | nil => rfl
  | cons d l ih =>
    simp only [Layout.exts, Layout.sizes, List.map_cons, nElems, prodSizes] at ih ⊢
    rw [ih hl.tail, hl.head.size_eq]

/-- the positions `elements().begin()`, `++`, … visits, from position `j` on -/
theorem go_spec (v : View) (hv : NonEmpty v) :
    ∀ (k : Nat) (it : ElemIt) (j : Nat), GoodIt v it → it.n = (j : Int) → j + k = (boxIndices v.exts).length →
      elemAddrs.go k it = some (((boxIndices v.exts).drop j).map v.addr) := by
  have hok : ExtsOK v.exts := wf_exts_ok hv.wf
  have hlen := boxIndices_length hok
  have hN : nElems v.exts = prodSizes (Layout.sizes v.lay) := nElems_eq_prodSizes v.lay hv.wf
  have hNpos := prodSizes_pos hv.pos
  intro k
  induction k with
  | zero =>
    intro it j _ _ hj
    have : (boxIndices v.exts).drop j = [] := List.drop_of_length_le (by omega)
    simp [elemAddrs.go, this]
  | succ k ih =>
    intro it j hg hn hj
    have hjl : j < (boxIndices v.exts).length := by omega
    obtain ⟨hin, hrk⟩ := boxIndices_getElem hok j hjl
    have hcur : it.current = v.addr (boxIndices v.exts)[j] := elemit_deref v hv.wf _ hin it hg (by rw [hn, hrk])
    have hlt : it.n < prodSizes (Layout.sizes v.lay) := by rw [hn, ← hN]; omega
    obtain ⟨it', hinc, hg', hn'⟩ := elemit_inc v hv it hg hlt
    have := ih it' (j + 1) hg' (by rw [hn', hn]; simp) (by omega)
    simp only [elemAddrs.go, hinc, Option.bind_some, this, Option.map_some, hcur]
    rw [List.drop_eq_getElem_cons hjl]
    rfl

/-- **the element-wise copy loops visit the elements of a view in canonical order** -/
theorem elemAddrs_eq (v : View) (hv : NonEmpty v) :
    elemAddrs v (nElems v.exts).toNat = some ((boxIndices v.exts).map v.addr) := by
  obtain ⟨⟨b, hb, hg, hn⟩, _, _⟩ := begin_end_good v hv
  have hok : ExtsOK v.exts := wf_exts_ok hv.wf
  unfold elemAddrs
  rw [hb]
  simp only [Option.bind_some]
  have := go_spec v hv (nElems v.exts).toNat b 0 hg (by rw [hn]; rfl) (by rw [boxIndices_length hok]; omega)
  simpa using this

/-! ### copying through an address list into consecutive cells -/

theorem copyCell_live' {h : Heap α} {s d : Nat} {scs dcs : List (Cell α)} (hs : Live h s scs) (hd : Live h d dcs)
    {a : Int} (ha0 : 0 ≤ a) (ha : a.toNat < scs.length) {k : Nat} (hk : k < dcs.length) :
    h.copyCell (some s) a (some d) (Int.ofNat k) = h.setBlock d (some (dcs.set k scs[a.toNat])) := by
  unfold Heap.copyCell
  have hr : h.read (some s) a = some scs[a.toNat] := by
    unfold Heap.read Heap.block?
    have : ¬ a < 0 := by omega
    simp only [this, if_false]
    rw [show h.blocks[s]? = some (some scs) from hs]
    simp [ha]
  rw [hr]
  exact write_live hd hk _

theorem copySeq_live : ∀ (ss : List Int) (h : Heap α) (s d : Nat) (scs dcs : List (Cell α)) (off : Nat),
    Live h s scs → Live h d dcs → s ≠ d → (∀ a ∈ ss, 0 ≤ a ∧ a.toNat < scs.length) → off + ss.length ≤ dcs.length →
    h.copyAddrs (some s) ss (some d) ((List.range' off ss.length).map Int.ofNat)
      = h.setBlock d (some (dcs.take off ++ ss.map (fun a => scs[a.toNat]?.getD none) ++ dcs.drop (off + ss.length))) := by
  intro ss
  induction ss with
  | nil =>
    intro h s d scs dcs off _ hd _ _ _
    simp [Heap.copyAddrs, Heap.setBlock_self hd]
  | cons a ss ih =>
    intro h s d scs dcs off hs hd hne hin hlen
    simp only [List.length_cons] at hlen
    obtain ⟨ha0, ha⟩ := hin a (List.mem_cons_self)
    unfold Heap.copyAddrs
    simp only [List.length_cons, List.range'_succ, List.map_cons, List.zip_cons_cons, List.foldl_cons]
    rw [copyCell_live' hs hd ha0 ha (by omega)]
    have hd' := hd.setBlock_same (dcs.set off scs[a.toNat])
    have hs' : Live (h.setBlock d (some (dcs.set off scs[a.toNat]))) s scs := hs.setBlock_other (Ne.symm hne) _
    have := ih _ s d scs _ (off + 1) hs' hd' hne (fun x hx => hin x (List.mem_cons_of_mem _ hx)) (by simp; omega)
    unfold Heap.copyAddrs at this
    rw [this, Heap.setBlock_setBlock]
    congr 2
    have h1 : (dcs.set off scs[a.toNat]).take (off + 1) = dcs.take off ++ [scs[a.toNat]] := by
      rw [List.take_succ_eq_append_getElem (by simp; omega)]
      simp [List.take_set_of_le]
    have h2 : (dcs.set off scs[a.toNat]).drop (off + 1 + ss.length) = dcs.drop (off + 1 + ss.length) := by
      rw [List.drop_set_of_lt (by omega)]
    rw [h1, h2]
    simp [ha, Nat.add_assoc, Nat.add_comm 1]

/-- the cells a view designates, in canonical order -/
def viewCells (scs : List (Cell α)) (v : View) : List (Cell α) :=
  (boxIndices v.exts).map fun idx => scs[(v.addr idx).toNat]?.getD none

/-- **construction from a view** (`array(view)`, `+view`, `view.decay()`): a fresh block holding the elements the view designates,
    in canonical order, with the view's extensions; nothing else is touched.  For views with at least one element whose
    addresses lie inside the live source block. -/
theorem viewCtor_outcome (h : Heap α) (s : Nat) (scs : List (Cell α)) (hs : Live h s scs) (v : View) (hv : NonEmpty v)
    (hin : ∀ idx ∈ boxIndices v.exts, 0 ≤ v.addr idx ∧ (v.addr idx).toNat < scs.length) :
    Outcome h (viewCtor h (some s) v).1 (fun _ => False) (viewCtor h (some s) v).2 ⟨collapse v.exts, viewCells scs v⟩ := by
  have hok : ExtsOK v.exts := wf_exts_ok hv.wf
  have hN : nElems v.exts = prodSizes (Layout.sizes v.lay) := nElems_eq_prodSizes v.lay hv.wf
  have hNpos := prodSizes_pos hv.pos
  have hn0 : nElems v.exts ≠ 0 := by omega
  have hea := elemAddrs_eq v hv
  have hblen := boxIndices_length hok
  unfold viewCtor
  simp only [ofExts_numElements hok, hea]
  apply outcome_fresh hok
  · simp [viewCells, hblen]
  · intro h0; exact absurd h0 hn0
  · intro _
    have hl1 := alloc_live h hn0
    have hls := alloc_keeps h (nElems v.exts) hs
    have hneq : s ≠ h.blocks.length := fun e => not_live_fresh h scs (e ▸ hs)
    rw [alloc_snd h hn0]
    have hrange : (List.range (nElems v.exts).toNat).map Int.ofNat
        = (List.range' 0 ((boxIndices v.exts).map v.addr).length).map Int.ofNat := by
      rw [List.length_map, hblen, List.range_eq_range']
    rw [hrange, copySeq_live _ _ s _ scs _ 0 hls hl1 hneq (by
      intro a ha
      obtain ⟨idx, hidx, rfl⟩ := List.mem_map.mp ha
      exact hin idx hidx) (by simp [hblen])]
    congr 2
    simp [viewCells, List.map_map, hblen, Function.comp_def]

end Own
end Multi
