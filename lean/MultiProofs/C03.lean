/-
  C03 — Standard algorithms on array / view ranges act as on independent values.

  What is proved here is the contract under which ANY sequence algorithm is correct on the library's ranges: the proxy
  iterator / proxy reference interface (MultiProofs/SeqSpec.lean: read, write, assign, swap at integer positions, the
  next step depending on the values read) refines a plain sequence of independent values.  The libstdc++ algorithms
  themselves are NOT verified: that each of the 20 listed algorithms is a program over this interface is in the trusted
  base and is what the differential run (harness/algos.cpp) validates.

  The `algo_<name>_on_views` / `algo_<name>_on_elements` corollaries (reverse, fill, copy_n, copy, move, copy_backward,
  swap_ranges, transform, find / find_if, equal, accumulate, is_sorted, lexicographical_compare, remove / remove_if) rest
  on the HAND TRANSCRIPTIONS of the libstdc++ loops in MultiProofs/AlgoProgs.lean: that libstdc++'s code is that interface
  program is trusted (validated by the differential run), what is proved is the list-level meaning of each program
  (AlgoLemmas.lean) and, through `proxy_refines_seq` / `elements_refines_seq`, its in-place effect on any well-formed
  injective view.  sort, stable_sort, partial_sort, nth_element, rotate, partition, unique are not transcribed: they
  remain validated by the differential run only (their correctness on views follows from `proxy_refines_seq` as soon as
  one grants that they are interface programs).

  Property theorems only; helper lemmas live in SeqLemmas / AlgoViews / AlgoLemmas / StoreLemmas / ElemOrder.
-/
import MultiProofs.SeqLemmas
import MultiProofs.AlgoLemmas
import MultiProofs.AlgoViews

namespace Multi
namespace C03

variable {α : Type}

/-- **rows**: running an interface program on memory through `begin()/end()` of a well-formed injective view and then
    reading off the rows = reading off the rows and running the program on the list of independent values; the returned
    position is the same; memory outside the view is unchanged -/
theorem proxy_refines_seq (v : View) (hwf : v.lay.WF) (hne : v.lay ≠ []) (hinj : v.Injective)
    (p : Prog (List α)) (hp : p.Typed (boxIndices v.exts.tail).length)
    (m : Mem α) (xs' : List (List α)) (pos : Int)
    (h : p.runList (rowsVal v m) = some (xs', pos)) :
    ∃ m', p.runRows v m = some (m', pos) ∧ rowsVal v m' = xs' ∧ ∀ a, ¬ v.InImage a → m' a = m a := by
  obtain ⟨m', e1, e2, e3⟩ := (rows_refines v hwf hne hinj).run p hp.toP m xs' pos h
  exact ⟨m', by rw [runRows_eq]; exact e1, e2, e3⟩

/-- **elements()**: the same through the flat elements range -/
theorem elements_refines_seq (v : View) (hwf : v.lay.WF) (hne : v.lay ≠ []) (hinj : v.Injective)
    (p : Prog α) (m : Mem α) (xs' : List α) (pos : Int)
    (h : p.runList (elemsVal v m) = some (xs', pos)) :
    ∃ m', p.runElems v m = some (m', pos) ∧ elemsVal v m' = xs' ∧ ∀ a, ¬ v.InImage a → m' a = m a := by
  obtain ⟨m', e1, e2, e3⟩ := (elems_refines v hwf hne hinj).run p p.typedP_true m xs' pos h
  exact ⟨m', by rw [runElems_eq]; exact e1, e2, e3⟩

/-- iterator arithmetic of the proxy iterators is integer arithmetic on positions (C02.arrit_laws, restated for `begin() + i`) -/
theorem positions_are_integers (v : View) (hs : v.begin'.stride ≠ 0) (i j : Int) :
    (v.begin'.add i).inc = v.begin'.add (i + 1) ∧ (v.begin'.add i).dec = v.begin'.add (i - 1) ∧
    (v.begin'.add i).add j = v.begin'.add (i + j) ∧ (v.begin'.add i).sub' j = v.begin'.add (i - j) ∧
    (v.begin'.add i).diff (v.begin'.add j) = i - j ∧
    ((v.begin'.add i).lt (v.begin'.add j) = decide (i < j)) ∧ ((v.begin'.add i).eq (v.begin'.add j) = decide (i = j)) := by
  refine ⟨?_, ?_, arrit_add_add _ i j, ?_, arrit_diff_add2 _ i j hs, ?_, ?_⟩
  · rw [(arrit_inc_eq_add _).1, arrit_add_add]
  · apply ArrIt.ext_eq <;> simp [ArrIt.add, ArrIt.dec]
    rw [Int.mul_sub]; omega
  · apply ArrIt.ext_eq <;> simp [ArrIt.add, ArrIt.sub']
    rw [Int.mul_sub]; omega
  · simp only [ArrIt.lt]; rw [arrit_diff_add2 _ j i hs]
    exact decide_eq_decide.mpr (by omega)
  · have := (C02.arrit_laws v.begin' i j hs).2.2.2.2.2.2.2.2.2.2
    rw [Bool.eq_iff_iff, this]; simp

/-- sanity: `std::reverse` written against the interface reverses a list of independent values … -/
theorem revProg_list {ρ : Type} (xs : List ρ) :
    (revProg ρ xs.length 0 xs.length).runList xs = some (xs.reverse, 0) := by
  have := revProg_run xs.length [] xs [] 0 xs.length rfl (by simp) (Nat.le_refl _)
  simpa using this

/-- … hence, by `proxy_refines_seq`, it reverses the rows of any well-formed injective view in place and touches nothing else -/
theorem revProg_rows (v : View) (hwf : v.lay.WF) (hne : v.lay ≠ []) (hinj : v.Injective) (m : Mem α) :
    ∃ m', (revProg (List α) (rowsVal v m).length 0 (rowsVal v m).length).runRows v m = some (m', 0) ∧
      rowsVal v m' = (rowsVal v m).reverse ∧ ∀ a, ¬ v.InImage a → m' a = m a := by
  exact proxy_refines_seq v hwf hne hinj _ (revProg_typed _ _ _ _) m _ 0 (revProg_list (rowsVal v m))

/-! ### the transcribed libstdc++ loops (AlgoProgs.lean) on the rows of a view

Each corollary is `proxy_refines_seq` + the list-level meaning of the program (AlgoLemmas.lean) at `xs := rowsVal v m`.
Positions are offsets from `begin()`; `N = (rowsVal v m).length` is the number of rows. -/

/-- `std::reverse(v.begin(), v.end())` (restatement of `revProg_rows`) -/
theorem algo_reverse_on_views (v : View) (hwf : v.lay.WF) (hne : v.lay ≠ []) (hinj : v.Injective) (m : Mem α) :
    ∃ m', (revProg (List α) (rowsVal v m).length 0 (rowsVal v m).length).runRows v m = some (m', 0) ∧
      rowsVal v m' = (rowsVal v m).reverse ∧ ∀ a, ¬ v.InImage a → m' a = m a :=
  revProg_rows v hwf hne hinj m

/-- `std::fill(v.begin(), v.end(), x)` with `x` a saved row -/
theorem algo_fill_on_views (v : View) (hwf : v.lay.WF) (hne : v.lay ≠ []) (hinj : v.Injective) (m : Mem α)
    (x : List α) (hx : x.length = (boxIndices v.exts.tail).length) :
    ∃ m', (fillProg x (rowsVal v m).length 0).runRows v m = some (m', ((rowsVal v m).length : Int)) ∧
      rowsVal v m' = List.replicate (rowsVal v m).length x ∧ ∀ a, ¬ v.InImage a → m' a = m a := by
  refine rows_on_views v hwf hne hinj m _ (fillProg_typed _ x hx _ _) _
    (fun ys => ys = List.replicate (rowsVal v m).length x) ⟨_, ?_, rfl⟩
  simpa using fillProg_list x [] (rowsVal v m) []

/-- `std::copy_n(vals.begin(), N, v.begin())` from a sequence of saved rows (also `v = {row₀, row₁, …}`) -/
theorem algo_copy_n_on_views (v : View) (hwf : v.lay.WF) (hne : v.lay ≠ []) (hinj : v.Injective) (m : Mem α)
    (vals : List (List α)) (hlen : vals.length = (rowsVal v m).length)
    (hrow : ∀ r ∈ vals, r.length = (boxIndices v.exts.tail).length) :
    ∃ m', (storeProg vals 0).runRows v m = some (m', (vals.length : Int)) ∧
      rowsVal v m' = vals ∧ ∀ a, ¬ v.InImage a → m' a = m a := by
  refine rows_on_views v hwf hne hinj m _ (storeProg_typed _ vals hrow _) _ (fun ys => ys = vals) ⟨_, ?_, rfl⟩
  simpa using storeProg_list vals [] (rowsVal v m) [] hlen.symm

/-- `std::copy(v.begin() + s, v.begin() + s + n, v.begin() + d)` between two blocks of rows of one view -/
theorem algo_copy_on_views (v : View) (hwf : v.lay.WF) (hne : v.lay ≠ []) (hinj : v.Injective) (m : Mem α)
    (n s d : Nat) (hs : s + n ≤ (rowsVal v m).length) (hd : d + n ≤ (rowsVal v m).length) (hsafe : d ≤ s ∨ s + n ≤ d) :
    ∃ m', (copyProg n s d).runRows v m = some (m', ((d + n : Nat) : Int)) ∧
      ((rowsVal v m').length = (rowsVal v m).length ∧
        (∀ i, i < n → (rowsVal v m')[d + i]? = (rowsVal v m)[s + i]?) ∧
        (∀ j, (j < d ∨ d + n ≤ j) → (rowsVal v m')[j]? = (rowsVal v m)[j]?)) ∧
      ∀ a, ¬ v.InImage a → m' a = m a :=
  rows_on_views v hwf hne hinj m _ (copyProg_typed _ _ _ _) _
    (fun ys => ys.length = (rowsVal v m).length ∧ (∀ i, i < n → ys[d + i]? = (rowsVal v m)[s + i]?) ∧
      (∀ j, (j < d ∨ d + n ≤ j) → ys[j]? = (rowsVal v m)[j]?))
    (copyProg_list (rowsVal v m) n s d hs hd hsafe)

/-- `std::move(v.begin() + k, v.end(), v.begin())` (rows of trivially movable elements: the same loop as `std::copy`):
    the instance `s = k`, `d = 0`, `n = N − k` of `algo_copy_on_views` -/
theorem algo_move_on_views (v : View) (hwf : v.lay.WF) (hne : v.lay ≠ []) (hinj : v.Injective) (m : Mem α)
    (k : Nat) (hk : k ≤ (rowsVal v m).length) :
    ∃ m', (copyProg ((rowsVal v m).length - k) k 0).runRows v m = some (m', (((rowsVal v m).length - k : Nat) : Int)) ∧
      ((rowsVal v m').length = (rowsVal v m).length ∧
        (∀ i, i < (rowsVal v m).length - k → (rowsVal v m')[i]? = (rowsVal v m)[k + i]?) ∧
        (∀ j, (rowsVal v m).length - k ≤ j → (rowsVal v m')[j]? = (rowsVal v m)[j]?)) ∧
      ∀ a, ¬ v.InImage a → m' a = m a := by
  have := algo_copy_on_views v hwf hne hinj m ((rowsVal v m).length - k) k 0 (by omega) (by omega) (Or.inl (by omega))
  simpa using this

/-- `std::copy_backward(v.begin() + sEnd − n, v.begin() + sEnd, v.begin() + dEnd)` -/
theorem algo_copy_backward_on_views (v : View) (hwf : v.lay.WF) (hne : v.lay ≠ []) (hinj : v.Injective) (m : Mem α)
    (n sEnd dEnd : Nat) (hs1 : n ≤ sEnd) (hs2 : sEnd ≤ (rowsVal v m).length) (hd1 : n ≤ dEnd)
    (hd2 : dEnd ≤ (rowsVal v m).length) (hsafe : sEnd ≤ dEnd ∨ dEnd + n ≤ sEnd) :
    ∃ m', (copyBackwardProg n sEnd dEnd).runRows v m = some (m', ((dEnd - n : Nat) : Int)) ∧
      ((rowsVal v m').length = (rowsVal v m).length ∧
        (∀ i, i < n → (rowsVal v m')[dEnd - n + i]? = (rowsVal v m)[sEnd - n + i]?) ∧
        (∀ j, (j < dEnd - n ∨ dEnd ≤ j) → (rowsVal v m')[j]? = (rowsVal v m)[j]?)) ∧
      ∀ a, ¬ v.InImage a → m' a = m a :=
  rows_on_views v hwf hne hinj m _ (copyBackwardProg_typed _ _ _ _) _
    (fun ys => ys.length = (rowsVal v m).length ∧ (∀ i, i < n → ys[dEnd - n + i]? = (rowsVal v m)[sEnd - n + i]?) ∧
      (∀ j, (j < dEnd - n ∨ dEnd ≤ j) → ys[j]? = (rowsVal v m)[j]?))
    (copyBackwardProg_list (rowsVal v m) n sEnd dEnd hs1 hs2 hd1 hd2 hsafe)

/-- `std::swap_ranges(v.begin() + a, v.begin() + a + n, v.begin() + b)` on two disjoint blocks of rows -/
theorem algo_swap_ranges_on_views (v : View) (hwf : v.lay.WF) (hne : v.lay ≠ []) (hinj : v.Injective) (m : Mem α)
    (n a b : Nat) (ha : a + n ≤ (rowsVal v m).length) (hb : b + n ≤ (rowsVal v m).length)
    (hdis : a + n ≤ b ∨ b + n ≤ a) :
    ∃ m', (swapRangesProg n a b).runRows v m = some (m', ((b + n : Nat) : Int)) ∧
      ((rowsVal v m').length = (rowsVal v m).length ∧
        (∀ i, i < n → (rowsVal v m')[a + i]? = (rowsVal v m)[b + i]? ∧ (rowsVal v m')[b + i]? = (rowsVal v m)[a + i]?) ∧
        (∀ j, (j < a ∨ a + n ≤ j) → (j < b ∨ b + n ≤ j) → (rowsVal v m')[j]? = (rowsVal v m)[j]?)) ∧
      ∀ a, ¬ v.InImage a → m' a = m a :=
  rows_on_views v hwf hne hinj m _ (swapRangesProg_typed _ _ _ _) _
    (fun ys => ys.length = (rowsVal v m).length ∧
      (∀ i, i < n → ys[a + i]? = (rowsVal v m)[b + i]? ∧ ys[b + i]? = (rowsVal v m)[a + i]?) ∧
      (∀ j, (j < a ∨ a + n ≤ j) → (j < b ∨ b + n ≤ j) → ys[j]? = (rowsVal v m)[j]?))
    (swapRangesProg_list (rowsVal v m) n a b ha hb hdis)

/-- `std::transform(v.begin() + s, v.begin() + s + n, v.begin() + d, f)` with `f` mapping rows to rows of the same extents -/
theorem algo_transform_on_views (v : View) (hwf : v.lay.WF) (hne : v.lay ≠ []) (hinj : v.Injective) (m : Mem α)
    (f : List α → List α)
    (hf : ∀ x, x.length = (boxIndices v.exts.tail).length → (f x).length = (boxIndices v.exts.tail).length)
    (n s d : Nat) (hs : s + n ≤ (rowsVal v m).length) (hd : d + n ≤ (rowsVal v m).length) (hsafe : d ≤ s ∨ s + n ≤ d) :
    ∃ m', (transformProg f n s d).runRows v m = some (m', ((d + n : Nat) : Int)) ∧
      ((rowsVal v m').length = (rowsVal v m).length ∧
        (∀ i, i < n → (rowsVal v m')[d + i]? = ((rowsVal v m)[s + i]?).map f) ∧
        (∀ j, (j < d ∨ d + n ≤ j) → (rowsVal v m')[j]? = (rowsVal v m)[j]?)) ∧
      ∀ a, ¬ v.InImage a → m' a = m a :=
  rows_on_views v hwf hne hinj m _ (transformProg_typed _ f hf _ _ _) _
    (fun ys => ys.length = (rowsVal v m).length ∧ (∀ i, i < n → ys[d + i]? = ((rowsVal v m)[s + i]?).map f) ∧
      (∀ j, (j < d ∨ d + n ≤ j) → ys[j]? = (rowsVal v m)[j]?))
    (transformProg_list f (rowsVal v m) n s d hs hd hsafe)

/-- `std::transform(v.begin(), v.end(), v.begin(), f)`: in place over the whole view, the rows become `map f` -/
theorem algo_transform_inplace_on_views (v : View) (hwf : v.lay.WF) (hne : v.lay ≠ []) (hinj : v.Injective) (m : Mem α)
    (f : List α → List α)
    (hf : ∀ x, x.length = (boxIndices v.exts.tail).length → (f x).length = (boxIndices v.exts.tail).length) :
    ∃ m', (transformProg f (rowsVal v m).length 0 0).runRows v m = some (m', ((rowsVal v m).length : Int)) ∧
      rowsVal v m' = (rowsVal v m).map f ∧ ∀ a, ¬ v.InImage a → m' a = m a :=
  rows_on_views v hwf hne hinj m _ (transformProg_typed _ f hf _ _ _) _ (fun ys => ys = (rowsVal v m).map f)
    ⟨_, transformProg_map f (rowsVal v m), rfl⟩

/-- `std::find_if(v.begin(), v.end(), p)` (and `std::find`): the position of the first row satisfying `p`, `N` if none;
    nothing is written -/
theorem algo_find_on_views (v : View) (hwf : v.lay.WF) (hne : v.lay ≠ []) (hinj : v.Injective) (m : Mem α)
    (p : List α → Bool) :
    ∃ m', (findProg p (rowsVal v m).length 0).runRows v m = some (m', (((rowsVal v m).findIdx p : Nat) : Int)) ∧
      rowsVal v m' = rowsVal v m ∧ ∀ a, ¬ v.InImage a → m' a = m a :=
  rows_on_views v hwf hne hinj m _ (findProg_typed _ p _ _) _ (fun ys => ys = rowsVal v m)
    ⟨_, findProg_list p (rowsVal v m), rfl⟩

/-- `std::equal(v.begin() + a, v.begin() + a + n, v.begin() + b)` (1 = true) -/
theorem algo_equal_on_views (v : View) (hwf : v.lay.WF) (hne : v.lay ≠ []) (hinj : v.Injective) (m : Mem α)
    (eq : List α → List α → Bool) (n a b : Nat) (ha : a + n ≤ (rowsVal v m).length) (hb : b + n ≤ (rowsVal v m).length) :
    ∃ m', (equalProg eq n a b).runRows v m
        = some (m', if ((seg (rowsVal v m) a n).zip (seg (rowsVal v m) b n)).all (fun q => eq q.1 q.2) then 1 else 0) ∧
      rowsVal v m' = rowsVal v m ∧ ∀ a, ¬ v.InImage a → m' a = m a :=
  rows_on_views v hwf hne hinj m _ (equalProg_typed _ eq _ _ _) _ (fun ys => ys = rowsVal v m)
    ⟨_, equalProg_list eq (rowsVal v m) n a b ha hb, rfl⟩

/-- `std::accumulate(v.begin(), v.end(), init, op)` with an integer accumulator -/
theorem algo_accumulate_on_views (v : View) (hwf : v.lay.WF) (hne : v.lay ≠ []) (hinj : v.Injective) (m : Mem α)
    (op : Int → List α → Int) (init : Int) :
    ∃ m', (accumulateProg op (rowsVal v m).length 0 init).runRows v m = some (m', (rowsVal v m).foldl op init) ∧
      rowsVal v m' = rowsVal v m ∧ ∀ a, ¬ v.InImage a → m' a = m a :=
  rows_on_views v hwf hne hinj m _ (accumulateProg_typed _ op _ _ _) _ (fun ys => ys = rowsVal v m)
    ⟨_, accumulateProg_list op (rowsVal v m) init, rfl⟩

/-- `std::is_sorted(v.begin(), v.end(), lt)` (1 = true) -/
theorem algo_is_sorted_on_views (v : View) (hwf : v.lay.WF) (hne : v.lay ≠ []) (hinj : v.Injective) (m : Mem α)
    (lt : List α → List α → Bool) :
    ∃ m', (isSortedProg lt (rowsVal v m).length).runRows v m = some (m', if adjSorted lt (rowsVal v m) then 1 else 0) ∧
      rowsVal v m' = rowsVal v m ∧ ∀ a, ¬ v.InImage a → m' a = m a :=
  rows_on_views v hwf hne hinj m _ (isSortedProg_typed _ lt _) _ (fun ys => ys = rowsVal v m)
    ⟨_, isSortedProg_list lt (rowsVal v m), rfl⟩

/-- `std::lexicographical_compare(v.begin() + a, v.begin() + a + n1, v.begin() + b, v.begin() + b + n2, lt)` (1 = true) -/
theorem algo_lexicographical_compare_on_views (v : View) (hwf : v.lay.WF) (hne : v.lay ≠ []) (hinj : v.Injective)
    (m : Mem α) (lt : List α → List α → Bool) (n1 n2 a b : Nat) (ha : a + n1 ≤ (rowsVal v m).length)
    (hb : b + n2 ≤ (rowsVal v m).length) :
    ∃ m', (lexCompareProg lt n1 n2 a b).runRows v m
        = some (m', if listLex lt (seg (rowsVal v m) a n1) (seg (rowsVal v m) b n2) then 1 else 0) ∧
      rowsVal v m' = rowsVal v m ∧ ∀ a, ¬ v.InImage a → m' a = m a :=
  rows_on_views v hwf hne hinj m _ (lexCompareProg_typed _ lt _ _ _ _) _ (fun ys => ys = rowsVal v m)
    ⟨_, lexCompareProg_list lt (rowsVal v m) n1 n2 a b ha hb, rfl⟩

/-- `std::remove_if(v.begin(), v.end(), p)` (and `std::remove`): the kept rows, in order, form the prefix up to the
    returned position -/
theorem algo_remove_on_views (v : View) (hwf : v.lay.WF) (hne : v.lay ≠ []) (hinj : v.Injective) (m : Mem α)
    (p : List α → Bool) :
    ∃ m', (removeProg p (rowsVal v m).length).runRows v m
        = some (m', ((((rowsVal v m).filter fun x => !p x).length : Nat) : Int)) ∧
      ((rowsVal v m').length = (rowsVal v m).length ∧
        (rowsVal v m').take ((rowsVal v m).filter fun x => !p x).length = (rowsVal v m).filter fun x => !p x) ∧
      ∀ a, ¬ v.InImage a → m' a = m a :=
  rows_on_views v hwf hne hinj m _ (removeProg_typed _ p _) _
    (fun ys => ys.length = (rowsVal v m).length ∧
      ys.take ((rowsVal v m).filter fun x => !p x).length = (rowsVal v m).filter fun x => !p x)
    (removeProg_list p (rowsVal v m))

/-- `std::partition(v.begin(), v.end(), p)`: the rows afterwards are a permutation of the rows before, the returned position
    is the number of rows satisfying `p`, every row before it satisfies `p` and no row from it on does -/
theorem algo_partition_on_views (v : View) (hwf : v.lay.WF) (hne : v.lay ≠ []) (hinj : v.Injective) (m : Mem α)
    (p : List α → Bool) :
    ∃ m', (partitionProg p (rowsVal v m).length).runRows v m = some (m', ((((rowsVal v m).filter p).length : Nat) : Int)) ∧
      ((rowsVal v m').Perm (rowsVal v m) ∧
        (∀ r ∈ (rowsVal v m').take ((rowsVal v m).filter p).length, p r = true) ∧
        (∀ r ∈ (rowsVal v m').drop ((rowsVal v m).filter p).length, p r = false)) ∧
      ∀ a, ¬ v.InImage a → m' a = m a :=
  rows_on_views v hwf hne hinj m _ (partitionProg_typed _ p _) _
    (fun ys => ys.Perm (rowsVal v m) ∧ (∀ r ∈ ys.take ((rowsVal v m).filter p).length, p r = true) ∧
      (∀ r ∈ ys.drop ((rowsVal v m).filter p).length, p r = false))
    (partitionProg_list p (rowsVal v m))

/-- `std::unique(v.begin(), v.end(), eq)`: the rows up to the returned position are the rows before with every row equal
    (under `eq`) to the last kept one dropped -/
theorem algo_unique_on_views (v : View) (hwf : v.lay.WF) (hne : v.lay ≠ []) (hinj : v.Injective) (m : Mem α)
    (eq : List α → List α → Bool) :
    ∃ m', (uniqueProg eq (rowsVal v m).length).runRows v m = some (m', (((uniq eq (rowsVal v m)).length : Nat) : Int)) ∧
      ((rowsVal v m').length = (rowsVal v m).length ∧
        (rowsVal v m').take (uniq eq (rowsVal v m)).length = uniq eq (rowsVal v m)) ∧
      ∀ a, ¬ v.InImage a → m' a = m a :=
  rows_on_views v hwf hne hinj m _ (uniqueProg_typed _ eq _) _
    (fun ys => ys.length = (rowsVal v m).length ∧ ys.take (uniq eq (rowsVal v m)).length = uniq eq (rowsVal v m))
    (uniqueProg_list eq (rowsVal v m))

/-- `std::sort(v.begin(), v.end(), lt)` on a view with at most 16 rows (libstdc++ then runs `__insertion_sort`), `lt` a strict
    weak order on row values: afterwards the rows are a sorted permutation of the rows before -/
theorem algo_sort16_on_views (v : View) (hwf : v.lay.WF) (hne : v.lay ≠ []) (hinj : v.Injective) (m : Mem α)
    (lt : List α → List α → Bool) (hasym : ∀ a b, lt a b = true → lt b a = false)
    (htr : ∀ a b c, lt b a = false → lt c b = false → lt c a = false) (_h16 : (rowsVal v m).length ≤ 16) :
    ∃ m', (insertionSortProg lt (rowsVal v m).length).runRows v m = some (m', 0) ∧
      ((rowsVal v m').Perm (rowsVal v m) ∧ (rowsVal v m').Pairwise fun a b => lt b a = false) ∧
      ∀ a, ¬ v.InImage a → m' a = m a :=
  rows_on_views v hwf hne hinj m _ (insertionSortProg_typed _ lt _) _
    (fun ys => ys.Perm (rowsVal v m) ∧ ys.Pairwise fun a b => lt b a = false)
    (insertionSortProg_list lt hasym htr (rowsVal v m))

/-- sanity of the reference: `unique` on a list with runs of duplicates -/
example : uniq (fun a b : Nat => a == b) [1, 1, 2, 2, 2, 1, 3, 3] = [1, 2, 1, 3] := by decide

/-! ### … and on the flat `elements()` range (no typing condition: elements are single cells) -/

theorem algo_reverse_on_elements (v : View) (hwf : v.lay.WF) (hne : v.lay ≠ []) (hinj : v.Injective) (m : Mem α) :
    ∃ m', (revProg α (elemsVal v m).length 0 (elemsVal v m).length).runElems v m = some (m', 0) ∧
      elemsVal v m' = (elemsVal v m).reverse ∧ ∀ a, ¬ v.InImage a → m' a = m a :=
  elems_on_views v hwf hne hinj m _ _ (fun ys => ys = (elemsVal v m).reverse) ⟨_, revProg_list (elemsVal v m), rfl⟩

theorem algo_fill_on_elements (v : View) (hwf : v.lay.WF) (hne : v.lay ≠ []) (hinj : v.Injective) (m : Mem α) (x : α) :
    ∃ m', (fillProg x (elemsVal v m).length 0).runElems v m = some (m', ((elemsVal v m).length : Int)) ∧
      elemsVal v m' = List.replicate (elemsVal v m).length x ∧ ∀ a, ¬ v.InImage a → m' a = m a := by
  refine elems_on_views v hwf hne hinj m _ _ (fun ys => ys = List.replicate (elemsVal v m).length x) ⟨_, ?_, rfl⟩
  simpa using fillProg_list x [] (elemsVal v m) []

theorem algo_copy_on_elements (v : View) (hwf : v.lay.WF) (hne : v.lay ≠ []) (hinj : v.Injective) (m : Mem α)
    (n s d : Nat) (hs : s + n ≤ (elemsVal v m).length) (hd : d + n ≤ (elemsVal v m).length) (hsafe : d ≤ s ∨ s + n ≤ d) :
    ∃ m', (copyProg n s d).runElems v m = some (m', ((d + n : Nat) : Int)) ∧
      ((elemsVal v m').length = (elemsVal v m).length ∧
        (∀ i, i < n → (elemsVal v m')[d + i]? = (elemsVal v m)[s + i]?) ∧
        (∀ j, (j < d ∨ d + n ≤ j) → (elemsVal v m')[j]? = (elemsVal v m)[j]?)) ∧
      ∀ a, ¬ v.InImage a → m' a = m a :=
  elems_on_views v hwf hne hinj m _ _
    (fun ys => ys.length = (elemsVal v m).length ∧ (∀ i, i < n → ys[d + i]? = (elemsVal v m)[s + i]?) ∧
      (∀ j, (j < d ∨ d + n ≤ j) → ys[j]? = (elemsVal v m)[j]?))
    (copyProg_list (elemsVal v m) n s d hs hd hsafe)

theorem algo_find_on_elements (v : View) (hwf : v.lay.WF) (hne : v.lay ≠ []) (hinj : v.Injective) (m : Mem α)
    (p : α → Bool) :
    ∃ m', (findProg p (elemsVal v m).length 0).runElems v m = some (m', (((elemsVal v m).findIdx p : Nat) : Int)) ∧
      elemsVal v m' = elemsVal v m ∧ ∀ a, ¬ v.InImage a → m' a = m a :=
  elems_on_views v hwf hne hinj m _ _ (fun ys => ys = elemsVal v m) ⟨_, findProg_list p (elemsVal v m), rfl⟩

theorem algo_accumulate_on_elements (v : View) (hwf : v.lay.WF) (hne : v.lay ≠ []) (hinj : v.Injective) (m : Mem α)
    (op : Int → α → Int) (init : Int) :
    ∃ m', (accumulateProg op (elemsVal v m).length 0 init).runElems v m = some (m', (elemsVal v m).foldl op init) ∧
      elemsVal v m' = elemsVal v m ∧ ∀ a, ¬ v.InImage a → m' a = m a :=
  elems_on_views v hwf hne hinj m _ _ (fun ys => ys = elemsVal v m) ⟨_, accumulateProg_list op (elemsVal v m) init, rfl⟩

theorem algo_partition_on_elements (v : View) (hwf : v.lay.WF) (hne : v.lay ≠ []) (hinj : v.Injective) (m : Mem α)
    (p : α → Bool) :
    ∃ m', (partitionProg p (elemsVal v m).length).runElems v m = some (m', ((((elemsVal v m).filter p).length : Nat) : Int)) ∧
      ((elemsVal v m').Perm (elemsVal v m) ∧
        (∀ r ∈ (elemsVal v m').take ((elemsVal v m).filter p).length, p r = true) ∧
        (∀ r ∈ (elemsVal v m').drop ((elemsVal v m).filter p).length, p r = false)) ∧
      ∀ a, ¬ v.InImage a → m' a = m a :=
  elems_on_views v hwf hne hinj m _ _
    (fun ys => ys.Perm (elemsVal v m) ∧ (∀ r ∈ ys.take ((elemsVal v m).filter p).length, p r = true) ∧
      (∀ r ∈ ys.drop ((elemsVal v m).filter p).length, p r = false))
    (partitionProg_list p (elemsVal v m))

theorem algo_unique_on_elements (v : View) (hwf : v.lay.WF) (hne : v.lay ≠ []) (hinj : v.Injective) (m : Mem α)
    (eq : α → α → Bool) :
    ∃ m', (uniqueProg eq (elemsVal v m).length).runElems v m = some (m', (((uniq eq (elemsVal v m)).length : Nat) : Int)) ∧
      ((elemsVal v m').length = (elemsVal v m).length ∧
        (elemsVal v m').take (uniq eq (elemsVal v m)).length = uniq eq (elemsVal v m)) ∧
      ∀ a, ¬ v.InImage a → m' a = m a :=
  elems_on_views v hwf hne hinj m _ _
    (fun ys => ys.length = (elemsVal v m).length ∧ ys.take (uniq eq (elemsVal v m)).length = uniq eq (elemsVal v m))
    (uniqueProg_list eq (elemsVal v m))

theorem algo_sort16_on_elements (v : View) (hwf : v.lay.WF) (hne : v.lay ≠ []) (hinj : v.Injective) (m : Mem α)
    (lt : α → α → Bool) (hasym : ∀ a b, lt a b = true → lt b a = false)
    (htr : ∀ a b c, lt b a = false → lt c b = false → lt c a = false) (_h16 : (elemsVal v m).length ≤ 16) :
    ∃ m', (insertionSortProg lt (elemsVal v m).length).runElems v m = some (m', 0) ∧
      ((elemsVal v m').Perm (elemsVal v m) ∧ (elemsVal v m').Pairwise fun a b => lt b a = false) ∧
      ∀ a, ¬ v.InImage a → m' a = m a :=
  elems_on_views v hwf hne hinj m _ _
    (fun ys => ys.Perm (elemsVal v m) ∧ ys.Pairwise fun a b => lt b a = false)
    (insertionSortProg_list lt hasym htr (elemsVal v m))

/-! non-vacuity: the transposed 3×2 view of a 2×3 array at base 10 satisfies every hypothesis of `proxy_refines_seq` /
    `elements_refines_seq`, and insertion sort written against the interface sorts a list of independent rows -/
example : ∃ v : View, v.lay.WF ∧ v.lay ≠ [] ∧ v.Injective ∧ v.exts = [⟨0, 3⟩, ⟨0, 2⟩] := by
  refine ⟨⟨10, [⟨1, 0, 3⟩, ⟨3, 0, 6⟩]⟩, ?_, by simp, ?_, by decide +kernel⟩
  · intro d hd
    simp only [List.mem_cons, List.not_mem_nil, or_false] at hd
    rcases hd with rfl | rfl
    · exact Or.inr ⟨by decide, by decide, ⟨3, by decide⟩, ⟨0, by decide⟩⟩
    · exact Or.inr ⟨by decide, by decide, ⟨2, by decide⟩, ⟨0, by decide⟩⟩
  · intro i j hi hj h
    have e : (⟨10, [⟨1, 0, 3⟩, ⟨3, 0, 6⟩]⟩ : View).exts = [⟨0, 3⟩, ⟨0, 2⟩] := by decide +kernel
    rw [e] at hi hj
    obtain ⟨a, b, rfl, _, _, _, _⟩ := inBox_two hi
    obtain ⟨a', b', rfl, _, _, _, _⟩ := inBox_two hj
    simp only [addr_eq, Layout.off] at h
    simp only [List.cons.injEq, and_true]
    constructor <;> omega

example : (isortProg (listLex fun (a b : Int) => decide (a < b)) 10 0 3).runList [[3, 1], [2, 5], [2, 4]]
    = some ([[2, 4], [2, 5], [3, 1]], 0) := by decide +kernel

example : (revProg Nat 5 0 5).runList [1, 2, 3, 4, 5] = some ([5, 4, 3, 2, 1], 0) := by decide +kernel

example : (insertionSortProg (fun a b : Nat => decide (a < b)) 7).runList [3, 1, 2, 3, 0, 5, 1] = some ([0, 1, 1, 2, 3, 3, 5], 0) := by
  decide +kernel

example : (partitionProg (fun n : Nat => n % 2 == 0) 6).runList [1, 2, 3, 4, 5, 6] = some ([6, 2, 4, 3, 5, 1], 3) := by
  decide +kernel

example : (uniqueProg (fun a b : Nat => a == b) 8).runList [1, 1, 2, 2, 2, 1, 3, 3] = some ([1, 2, 1, 3, 2, 1, 3, 3], 4) := by
  decide +kernel

end C03
end Multi
