/-
  C03 — Standard algorithms on array / view ranges act as on independent values.

  What is proved here is the contract under which ANY sequence algorithm is correct on the library's ranges: the proxy
  iterator / proxy reference interface (MultiProofs/SeqSpec.lean: read, write, assign, swap at integer positions, the
  next step depending on the values read) refines a plain sequence of independent values.  The libstdc++ algorithms
  themselves are NOT verified: that each of the 20 listed algorithms is a program over this interface is in the trusted
  base and is what the differential run (harness/algos.cpp) validates.

  Property theorems only; helper lemmas live in SeqLemmas / StoreLemmas / ElemOrder.
-/
import MultiProofs.SeqLemmas

namespace Multi
namespace C03

variable {α : Type}

/-- **rows**: running an interface program on memory through `begin()/end()` of a well-formed injective view and then
    reading off the rows = reading off the rows and running the program on the list of independent values; the returned
    position is the same; memory outside the view is unchanged -/
theorem proxy_refines_seq (v : View) (hwf : v.lay.WF) (hne : v.lay ≠ []) (hinj : v.Injective)
    (p : Prog (List α)) (hp : p.Typed (boxIndices v.exts.tail).length)
    (m : Mem α) (xs' : List (List α)) (pos : Int)
    (h : p.runList (rowsVal v m) = some (xs', pos)) :
    ∃ m', p.runRows v m = some (m', pos) ∧ rowsVal v m' = xs' ∧ ∀ a, ¬ v.InImage a → m' a = m a := by
  obtain ⟨m', e1, e2, e3⟩ := (rows_refines v hwf hne hinj).run p hp.toP m xs' pos h
  exact ⟨m', by rw [runRows_eq]; exact e1, e2, e3⟩

/-- **elements()**: the same through the flat elements range -/
theorem elements_refines_seq (v : View) (hwf : v.lay.WF) (hne : v.lay ≠ []) (hinj : v.Injective)
    (p : Prog α) (m : Mem α) (xs' : List α) (pos : Int)
    (h : p.runList (elemsVal v m) = some (xs', pos)) :
    ∃ m', p.runElems v m = some (m', pos) ∧ elemsVal v m' = xs' ∧ ∀ a, ¬ v.InImage a → m' a = m a := by
  obtain ⟨m', e1, e2, e3⟩ := (elems_refines v hwf hne hinj).run p p.typedP_true m xs' pos h
  exact ⟨m', by rw [runElems_eq]; exact e1, e2, e3⟩

/-- iterator arithmetic of the proxy iterators is integer arithmetic on positions (C02.arrit_laws, restated for `begin() + i`) -/
theorem positions_are_integers (v : View) (hs : v.begin'.stride ≠ 0) (i j : Int) :
    (v.begin'.add i).inc = v.begin'.add (i + 1) ∧ (v.begin'.add i).dec = v.begin'.add (i - 1) ∧
    (v.begin'.add i).add j = v.begin'.add (i + j) ∧ (v.begin'.add i).sub' j = v.begin'.add (i - j) ∧
    (v.begin'.add i).diff (v.begin'.add j) = i - j ∧
    ((v.begin'.add i).lt (v.begin'.add j) = decide (i < j)) ∧ ((v.begin'.add i).eq (v.begin'.add j) = decide (i = j)) := by
  refine ⟨?_, ?_, arrit_add_add _ i j, ?_, arrit_diff_add2 _ i j hs, ?_, ?_⟩
  · rw [(arrit_inc_eq_add _).1, arrit_add_add]
  · apply ArrIt.ext_eq <;> simp [ArrIt.add, ArrIt.dec]
    rw [Int.mul_sub]; omega
  · apply ArrIt.ext_eq <;> simp [ArrIt.add, ArrIt.sub']
    rw [Int.mul_sub]; omega
  · simp only [ArrIt.lt]; rw [arrit_diff_add2 _ j i hs]
    exact decide_eq_decide.mpr (by omega)
  · have := (C02.arrit_laws v.begin' i j hs).2.2.2.2.2.2.2.2.2.2
    rw [Bool.eq_iff_iff, this]; simp

/-- sanity: `std::reverse` written against the interface reverses a list of independent values … -/
theorem revProg_list {ρ : Type} (xs : List ρ) :
    (revProg ρ xs.length 0 xs.length).runList xs = some (xs.reverse, 0) := by
  have := revProg_run xs.length [] xs [] 0 xs.length rfl (by simp) (Nat.le_refl _)
  simpa using this

/-- … hence, by `proxy_refines_seq`, it reverses the rows of any well-formed injective view in place and touches nothing else -/
theorem revProg_rows (v : View) (hwf : v.lay.WF) (hne : v.lay ≠ []) (hinj : v.Injective) (m : Mem α) :
    ∃ m', (revProg (List α) (rowsVal v m).length 0 (rowsVal v m).length).runRows v m = some (m', 0) ∧
      rowsVal v m' = (rowsVal v m).reverse ∧ ∀ a, ¬ v.InImage a → m' a = m a := by
  exact proxy_refines_seq v hwf hne hinj _ (revProg_typed _ _ _ _) m _ 0 (revProg_list (rowsVal v m))

/-! non-vacuity: the transposed 3×2 view of a 2×3 array at base 10 satisfies every hypothesis of `proxy_refines_seq` /
    `elements_refines_seq`, and insertion sort written against the interface sorts a list of independent rows -/
example : ∃ v : View, v.lay.WF ∧ v.lay ≠ [] ∧ v.Injective ∧ v.exts = [⟨0, 3⟩, ⟨0, 2⟩] := by
  refine ⟨⟨10, [⟨1, 0, 3⟩, ⟨3, 0, 6⟩]⟩, ?_, by simp, ?_, by decide +kernel⟩
  · intro d hd
    simp only [List.mem_cons, List.not_mem_nil, or_false] at hd
    rcases hd with rfl | rfl
    · exact Or.inr ⟨by decide, by decide, ⟨3, by decide⟩, ⟨0, by decide⟩⟩
    · exact Or.inr ⟨by decide, by decide, ⟨2, by decide⟩, ⟨0, by decide⟩⟩
  · intro i j hi hj h
    have e : (⟨10, [⟨1, 0, 3⟩, ⟨3, 0, 6⟩]⟩ : View).exts = [⟨0, 3⟩, ⟨0, 2⟩] := by decide +kernel
    rw [e] at hi hj
    obtain ⟨a, b, rfl, _, _, _, _⟩ := inBox_two hi
    obtain ⟨a', b', rfl, _, _, _, _⟩ := inBox_two hj
    simp only [addr_eq, Layout.off] at h
    simp only [List.cons.injEq, and_true]
    constructor <;> omega

example : (isortProg (listLex fun (a b : Int) => decide (a < b)) 10 0 3).runList [[3, 1], [2, 5], [2, 4]]
    = some ([[2, 4], [2, 5], [3, 1]], 0) := by decide +kernel

example : (revProg Nat 5 0 5).runList [1, 2, 3, 4, 5] = some ([5, 4, 3, 2, 1], 0) := by decide +kernel

end C03
end Multi
