/-
  C03 — Standard algorithms on array / view ranges act as on independent values.

  What is proved here is the contract under which ANY sequence algorithm is correct on the library's ranges: the proxy
  iterator / proxy reference interface (MultiProofs/SeqSpec.lean: read, write, assign, swap at integer positions, the
  next step depending on the values read) refines a plain sequence of independent values.  The libstdc++ algorithms
  themselves are NOT verified: that each of the 20 listed algorithms is a program over this interface is in the trusted
  base and is what the differential run (harness/algos.cpp) validates.

  Property theorems only; helper lemmas live in SeqLemmas / StoreLemmas / ElemOrder.
-/
import MultiProofs.SeqLemmas

namespace Multi
namespace C03

variable {α : Type}

/-- **rows**: running an interface program on memory through `begin()/end()` of a well-formed injective view and then
    reading off the rows = reading off the rows and running the program on the list of independent values; the returned
    position is the same; memory outside the view is unchanged -/
theorem proxy_refines_seq (v : View) (hwf : v.lay.WF) (hne : v.lay ≠ []) (hinj : v.Injective)
    (p : Prog (List α)) (hp : p.Typed (boxIndices v.exts.tail).length)
    (m : Mem α) (xs' : List (List α)) (pos : Int)
    (h : p.runList (rowsVal v m) = some (xs', pos)) :
    ∃ m', p.runRows v m = some (m', pos) ∧ rowsVal v m' = xs' ∧ ∀ a, ¬ v.InImage a → m' a = m a := by
  sorry

/-- **elements()**: the same through the flat elements range -/
theorem elements_refines_seq (v : View) (hwf : v.lay.WF) (hne : v.lay ≠ []) (hinj : v.Injective)
    (p : Prog α) (m : Mem α) (xs' : List α) (pos : Int)
    (h : p.runList (elemsVal v m) = some (xs', pos)) :
    ∃ m', p.runElems v m = some (m', pos) ∧ elemsVal v m' = xs' ∧ ∀ a, ¬ v.InImage a → m' a = m a := by
  sorry

/-- iterator arithmetic of the proxy iterators is integer arithmetic on positions (C02.arrit_laws, restated for `begin() + i`) -/
theorem positions_are_integers (v : View) (hs : v.begin'.stride ≠ 0) (i j : Int) :
    (v.begin'.add i).inc = v.begin'.add (i + 1) ∧ (v.begin'.add i).dec = v.begin'.add (i - 1) ∧
    (v.begin'.add i).add j = v.begin'.add (i + j) ∧ (v.begin'.add i).sub' j = v.begin'.add (i - j) ∧
    (v.begin'.add i).diff (v.begin'.add j) = i - j ∧
    ((v.begin'.add i).lt (v.begin'.add j) = decide (i < j)) ∧ ((v.begin'.add i).eq (v.begin'.add j) = decide (i = j)) := by
  sorry

/-- sanity: `std::reverse` written against the interface reverses a list of independent values … -/
theorem revProg_list {ρ : Type} (xs : List ρ) :
    (revProg ρ xs.length 0 xs.length).runList xs = some (xs.reverse, 0) := by
  sorry

/-- … hence, by `proxy_refines_seq`, it reverses the rows of any well-formed injective view in place and touches nothing else -/
theorem revProg_rows (v : View) (hwf : v.lay.WF) (hne : v.lay ≠ []) (hinj : v.Injective) (m : Mem α) :
    ∃ m', (revProg (List α) (rowsVal v m).length 0 (rowsVal v m).length).runRows v m = some (m', 0) ∧
      rowsVal v m' = (rowsVal v m).reverse ∧ ∀ a, ¬ v.InImage a → m' a = m a := by
  sorry

end C03
end Multi
