/-
  C01 — View algebra: every composed view has the prescribed shape and elements.

  Property theorems only (helper lemmas live in Lemmas/Basic/Ops*/Perm/Call).  Statement shapes:
    * `root_denotes`       an array built from extensions `es` is row-major over exactly those extensions
    * `op_refines`         each operation, as coded, realises its documented shape and index mapping
    * `reachable_denotes`  by induction on the operation sequence: any finite in-domain composition does
    * `reachable_in_bounds` no access touches storage outside the original array
    * `shape_functions_agree`, `strides_are_address_steps`, `paths_agree`, `broadcast_designates_source`
-/
import MultiProofs.Call

namespace Multi
namespace C01

theorem nElems_nonneg (es : List Ext) (h : ∀ e ∈ es, e.first ≤ e.last) : 0 ≤ nElems es := by
  induction es with
  | nil => simp [nElems]
  | cons e es ih =>
    simp only [nElems]
    apply Int.mul_nonneg
    · have := h e (by simp); simp [Ext.size]; omega
    · exact ih (fun x hx => h x (List.mem_cons_of_mem _ hx))

/-- `array(extensions)`: well-formed, reports the given extensions (collapsed to empty when some extent is
    empty), has `Π sizes` elements, and addresses its elements in row-major order inside `[0, Π sizes)`. -/
theorem root_denotes (es : List Ext) (h : ∀ e ∈ es, e.first ≤ e.last) :
    (Layout.ofExts es).WF ∧ (Layout.ofExts es).exts = collapse es ∧
    (Layout.ofExts es).numElements = nElems es ∧
    ∀ idx, InBox (collapse es) idx →
      (Layout.ofExts es).off idx = rowMajor es idx ∧ 0 ≤ rowMajor es idx ∧ rowMajor es idx < nElems es := by
  induction es with
  | nil =>
    refine ⟨by simp [Layout.ofExts, Layout.WF], by simp [Layout.ofExts, Layout.exts, collapse], by simp [Layout.ofExts, Layout.numElements, nElems], ?_⟩
    intro idx hidx
    cases idx with
    | nil => simp [Layout.off, rowMajor, nElems]
    | cons _ _ => simp [collapse, InBox] at hidx
  | cons e es ih =>
    have hes : ∀ x ∈ es, x.first ≤ x.last := fun x hx => h x (List.mem_cons_of_mem _ hx)
    obtain ⟨iwf, iex, ine, iaddr⟩ := ih hes
    have hn0 : 0 ≤ nElems es := nElems_nonneg es hes
    have hsz0 : 0 ≤ e.size := by have := h e (by simp); simp [Ext.size]; omega
    simp only [Layout.ofExts, ine]
    by_cases hn : nElems es = 0
    · -- some later extent is empty
      simp only [hn, ne_eq, not_true_eq_false, if_false, Int.mul_zero]
      refine ⟨Layout.WF.cons (Or.inl rfl) iwf, ?_, ?_, ?_⟩
      · simp [Layout.exts, Dim.ext, collapse, hn] ; exact iex
      · simp [Layout.numElements, Dim.size, nElems, hn]
      · intro idx hidx
        simp only [collapse, hn, Int.mul_zero, if_true] at hidx
        obtain ⟨t, r, rfl, h1, h2, _⟩ := inBox_cons hidx
        simp at h1 h2; omega
    · have hnpos : 0 < nElems es := by omega
      simp only [ne_eq, hn, not_false_eq_true, if_true]
      by_cases hs : e.size = 0
      · simp only [hs, Int.zero_mul]
        refine ⟨Layout.WF.cons (Or.inl rfl) iwf, ?_, ?_, ?_⟩
        · simp [Layout.exts, Dim.ext, collapse, hs]; exact iex
        · simp [Layout.numElements, Dim.size, nElems, hs]
        · intro idx hidx
          simp only [collapse, hs, Int.zero_mul, if_true] at hidx
          obtain ⟨t, r, rfl, h1, h2, _⟩ := inBox_cons hidx
          simp at h1 h2; omega
      · have hspos : 0 < e.size := by omega
        have hlast : e = ⟨e.first, e.first + e.size⟩ := by
          cases e; simp [Ext.size]; omega
        have hprod : e.size * nElems es ≠ 0 := Int.ne_of_gt (Int.mul_pos hspos hnpos)
        refine ⟨Layout.WF.cons (Dim.wf_mk hnpos hspos) iwf, ?_, ?_, ?_⟩
        · simp only [Layout.exts, List.map_cons, collapse, hprod, if_false]
          rw [Dim.ext_mk hnpos hspos, ← hlast]
          exact congrArg _ iex
        · simp only [Layout.numElements, nElems]
          rw [Dim.size_mk hnpos hspos, ine]
        · intro idx hidx
          simp only [collapse, hprod, if_false] at hidx
          obtain ⟨i, r, rfl, h1, h2, h3⟩ := inBox_cons hidx
          obtain ⟨a1, a2, a3⟩ := iaddr r h3
          simp only [Layout.off, rowMajor, nElems]
          have hi0 : 0 ≤ i - e.first := by omega
          have hi1 : i - e.first ≤ e.size - 1 := by simp [Ext.size]; omega
          have m0 : 0 ≤ (i - e.first) * nElems es := Int.mul_nonneg hi0 hn0
          have m1 : (i - e.first) * nElems es ≤ (e.size - 1) * nElems es := Int.mul_le_mul_of_nonneg_right hi1 hn0
          have m2 : (e.size - 1) * nElems es = e.size * nElems es - nElems es := by rw [Int.sub_mul]; simp
          have m3 : (i - e.first) * nElems es = i * nElems es - e.first * nElems es := Int.sub_mul _ _ _
          refine ⟨by omega, by omega, by omega⟩

/-- every operation of the view algebra, as coded, realises its documented shape and index mapping -/
theorem op_refines (op : Op) (v : View) (hwf : v.lay.WF) (hd : op.InDomain v) :
    Refines v (op.apply v) (op.specShape v.exts) (op.specMap v.exts) := by
  cases op with
  | index i => exact index_refines v i hwf hd
  | sliced a b => exact sliced_refines v a b hwf hd
  | range a b => exact range_refines v a b hwf hd
  | strided s => exact strided_refines v s hwf hd
  | dropped n => exact dropped_refines v n hwf hd
  | taked n => exact taked_refines v n hwf hd
  | rotated => exact rotated_refines v hwf
  | unrotated => exact unrotated_refines v hwf
  | transposed => exact transposed_refines v hwf hd
  | reversed => exact reversed_refines v hwf
  | diagonal => exact diagonal_refines v hwf hd
  | partitioned n => exact partitioned_refines v n hwf hd
  | chunked c => exact chunked_refines v c hwf hd
  | flatted => exact flatted_refines v hwf hd
  | call args => exact paren_refines args v hwf hd

/-- **C01, main statement.** Every view obtained from `root` by any finite composition of in-domain
    view-forming operations has exactly the extents, and at every valid index tuple designates exactly the
    element of `root`, that composing the operations' documented index mappings prescribes. -/
theorem reachable_denotes (root v : View) (den : Den) (hroot : root.lay.WF) (h : Reach root v den) :
    Refines root v den.shape den.map := by
  induction h with
  | root => exact Refines.id root hroot
  | step op _ hd ih =>
    have r := op_refines op _ ih.1 hd
    rw [ih.2.1] at r
    exact ih.trans r

/-- No access through a reachable view touches storage outside the original array `[base, base + N)`. -/
theorem reachable_in_bounds (base : Int) (es : List Ext) (hes : ∀ e ∈ es, e.first ≤ e.last)
    (v : View) (den : Den) (h : Reach ⟨base, Layout.ofExts es⟩ v den) (idx : List Int) (hidx : InBox den.shape idx) :
    base ≤ v.addr idx ∧ v.addr idx < base + nElems es := by
  obtain ⟨rwf, rex, _, raddr⟩ := root_denotes es hes
  have r := reachable_denotes ⟨base, Layout.ofExts es⟩ v den rwf h
  obtain ⟨e1, b1⟩ := r.2.2 idx hidx
  have b1' : InBox (collapse es) (den.map idx) := by rw [← rex]; exact b1
  obtain ⟨a1, a2, a3⟩ := raddr _ b1'
  rw [e1, addr_eq]
  simp only
  omega

/-- `size`, `sizes`, `num_elements`, `is_empty` agree with the extensions (hence, by `reachable_denotes`,
    with the prescribed shape). -/
theorem shape_functions_agree (v : View) (hwf : v.lay.WF) :
    v.sizes = v.exts.map Ext.size ∧ v.numElements = nElems v.exts ∧ v.size = v.ext.size ∧
    (v.lay ≠ [] → (v.isEmpty = true ↔ v.ext.size = 0)) := by
  have hsizes : ∀ l : Layout, l.WF → l.sizes = l.exts.map Ext.size ∧ l.numElements = nElems l.exts := by
    intro l hl
    induction l with
    | nil => simp [Layout.sizes, Layout.exts, Layout.numElements, nElems]
    | cons d l ih =>
      obtain ⟨i1, i2⟩ := ih hl.tail
      have := hl.head.size_eq
      constructor
      · show d.size :: Layout.sizes l = d.ext.size :: (Layout.exts l).map Ext.size
        rw [this, i1]
      · simp only [Layout.numElements, Layout.exts, List.map_cons, nElems]; rw [this, i2]; rfl
  refine ⟨(hsizes v.lay hwf).1, (hsizes v.lay hwf).2, ?_, ?_⟩
  · cases hv : v.lay with
    | nil => simp [View.size, View.ext, hv, Ext.size]
    | cons d l => simp only [View.size, View.ext, hv]; exact (by rw [hv] at hwf; exact hwf.head.size_eq)
  · intro hne
    cases hv : v.lay with
    | nil => exact absurd hv hne
    | cons d l =>
      have hd : d.WF := by rw [hv] at hwf; exact hwf.head
      simp only [View.isEmpty, Layout.isEmpty, hv, View.ext, beq_iff_eq]
      rcases hd.cases with h0 | ⟨f, n, hn, _, _, hnn, he, _⟩
      · simp [h0, Dim.ext_of_nelems_zero h0, Ext.size]
      · rw [he]; simp [Ext.size]
        constructor
        · intro h; rw [hnn] at h
          have : 0 < n * d.stride := Int.mul_pos hn (by assumption)
          omega
        · intro h; omega

/-- `strides()`: the k-th stride is the address step between consecutive indices of dimension k. -/
theorem strides_are_address_steps (v : View) (pre post : Layout) (d : Dim) (ip iq : List Int) (i : Int)
    (hv : v.lay = pre ++ d :: post) (hlen : ip.length = pre.length) :
    v.addr (ip ++ (i + 1) :: iq) - v.addr (ip ++ i :: iq) = d.stride ∧ v.strides[pre.length]? = some d.stride := by
  constructor
  · rw [addr_eq, addr_eq, hv]
    have : ∀ (pre : Layout) (ip : List Int), ip.length = pre.length →
        Layout.off (pre ++ d :: post) (ip ++ (i + 1) :: iq) - Layout.off (pre ++ d :: post) (ip ++ i :: iq) = d.stride := by
      intro pre
      induction pre with
      | nil => intro ip h; cases ip with
        | nil => simp only [List.nil_append, Layout.off]; have := Int.add_mul i 1 d.stride; omega
        | cons _ _ => simp at h
      | cons p pre ih => intro ip h; cases ip with
        | nil => simp at h
        | cons j ip => simp only [List.cons_append, Layout.off]; have := ih ip (by simpa using h); omega
    have := this pre ip hlen
    omega
  · simp [View.strides, Layout.strides, hv]

theorem paren_idx_eq_bracket (v : View) (idx : List Int) : v.paren (idx.map Arg.idx) = v.bracket idx := by
  induction idx generalizing v with
  | nil => simp [View.paren, View.bracket]
  | cons i is ih => simp only [List.map_cons, View.paren, View.bracket, List.foldl_cons]; exact ih (v.index i)

theorem foldl_add_shift (l : List Int) (a : Int) : l.foldl (· + ·) a = a + l.foldl (· + ·) 0 := by
  induction l generalizing a with
  | nil => simp
  | cons x l ih => simp only [List.foldl_cons]; rw [ih (a + x), ih (0 + x)]; omega

/-- All access paths to one index tuple reach the same element: chained brackets, call syntax with
    all-index arguments (`apply` forwards to it), and — for zero-based views — cursor indexing. -/
theorem paths_agree (v : View) (idx : List Int) :
    (v.paren (idx.map Arg.idx)).base = v.addr idx ∧
    (v.lay.WF → InBox v.exts idx → (∀ e ∈ v.exts, e.first = 0) → v.cursorAddr idx = v.addr idx) := by
  constructor
  · rw [paren_idx_eq_bracket]; rfl
  · intro hwf hin hz
    rw [addr_eq]
    unfold View.cursorAddr
    congr 1
    have : ∀ (l : Layout) (idx : List Int), l.WF → InBox l.exts idx → (∀ e ∈ l.exts, e.first = 0) →
        (List.map (fun x : Int × Int => x.1 * x.2) (l.strides.zip idx)).foldl (· + ·) 0 = l.off idx := by
      intro l
      induction l with
      | nil => intro idx _ _ _; simp [Layout.strides, Layout.off]
      | cons d l ih =>
        intro idx hl hb hzz
        simp only [Layout.exts, List.map_cons] at hb hzz
        obtain ⟨t, r, rfl, h1, h2, h3⟩ := inBox_cons hb
        have hf : d.ext.first = 0 := hzz _ (by simp)
        have hoff : d.offset = 0 := by
          rcases hl.head.cases with h0 | ⟨f, n, _, _, hf', _, he, _⟩
          · rw [Dim.ext_of_nelems_zero h0] at h1 h2; simp at h1 h2; omega
          · rw [he] at hf; simp at hf; subst hf; rw [hf']; simp
        simp only [Layout.strides, List.map_cons, List.zip_cons_cons, List.foldl_cons, Layout.off]
        rw [foldl_add_shift]
        have := ih r hl.tail h3 (fun e he => hzz e (List.mem_cons_of_mem _ he))
        simp only [Layout.strides] at this
        rw [this, hoff, Int.mul_comm]; omega
    exact this v.lay idx hwf hin hz

/-- `halved()` is not named by the property (the run exercises it); on a well-formed leading level of even size it IS
    `partitioned(2)`, as the code has it (`layout().halve()` vs the `layout_t<D+1>` built by `partitioned_aux_`) -/
theorem halved_eq_partitioned (b : Int) (d : Dim) (sub : Layout) (hd : d.WF) (heven : d.size.tmod 2 = 0) :
    View.halved ⟨b, d :: sub⟩ = View.partitioned ⟨b, d :: sub⟩ 2 := by
  have key : d.stride * d.size.tdiv 2 = d.nelems.tdiv 2 := by
    rcases hd.cases with h0 | ⟨f, n, hn, hs, _, hne, _, hsz⟩
    · simp [Dim.size, h0]
    · rw [hsz] at heven ⊢
      rw [hne]
      have hn0 : 0 ≤ n := by omega
      rw [Int.tmod_eq_emod_of_nonneg hn0] at heven
      rw [Int.tdiv_eq_ediv_of_nonneg hn0]
      have h2 : n = 2 * (n / 2) := by omega
      have hns : 0 ≤ n * d.stride := Int.mul_nonneg hn0 (by omega)
      rw [Int.tdiv_eq_ediv_of_nonneg hns]
      have : n * d.stride = 2 * ((n / 2) * d.stride) := by
        conv => lhs; rw [h2]
        rw [Int.mul_assoc]
      rw [this, Int.mul_ediv_cancel_left _ (by decide : (2:Int) ≠ 0), Int.mul_comm]
  simp [View.halved, View.partitioned, Layout.halve, Layout.take, key]

/-- hence `halved()` denotes `(p, q, r…) ↦ (p·(size/2) + q, r…)` with shape `(2, size/2, …)`, like `partitioned(2)` -/
theorem halved_refines (v : View) (hwf : v.lay.WF) (hd : (Op.partitioned 2).InDomain v) :
    Refines v v.halved ((Op.partitioned 2).specShape v.exts) ((Op.partitioned 2).specMap v.exts) := by
  have h := partitioned_refines v 2 hwf hd
  obtain ⟨hne, _, ⟨q, hq⟩⟩ := hd
  cases hv : v.lay with
  | nil => exact absurd hv hne
  | cons d sub =>
    have hdwf : d.WF := by rw [hv] at hwf; exact hwf.head
    rw [View.ext_cons hv, ← hdwf.size_eq] at hq
    have heven : d.size.tmod 2 = 0 := by rw [hq]; exact Int.mul_tmod_right 2 q
    have e : v.halved = v.partitioned 2 := by
      have := halved_eq_partitioned v.base d sub hdwf heven
      cases v with
      | mk b l => simp only at hv; subst hv; exact this
    rw [e]; exact h


/-- A broadcasted view designates its source view at every index of the added leading dimension. -/
theorem broadcast_designates_source (v : View) (junk i : Int) : (v.broadcasted junk).index i = v := by
  simp [View.broadcasted, View.index]

/-! non-vacuity: a concrete 4×6×2 array and the operation list of the protocol example satisfy every hypothesis -/
example : ∃ v den, Reach ⟨100, Layout.ofExts [⟨0, 4⟩, ⟨0, 6⟩, ⟨0, 2⟩]⟩ v den ∧ den.shape = [⟨0, 2⟩, ⟨0, 2⟩, ⟨0, 4⟩] := by
  let root : View := ⟨100, Layout.ofExts [⟨0, 4⟩, ⟨0, 6⟩, ⟨0, 2⟩]⟩
  have h0 : Reach root root ⟨root.exts, id⟩ := Reach.root
  have h1 := Reach.step (root := root) Op.rotated h0 (by trivial)
  have h2 := Reach.step (root := root) (Op.sliced 1 5) h1 (by decide +kernel)
  have h3 := Reach.step (root := root) (Op.partitioned 2) h2 (by decide +kernel)
  have h4 := Reach.step (root := root) (Op.index 1) h3 (by decide +kernel)
  exact ⟨_, _, h4, by decide +kernel⟩

example : ∃ v den, Reach ⟨0, Layout.ofExts [⟨0, 3⟩, ⟨0, 4⟩, ⟨0, 5⟩]⟩ v den ∧ den.shape = [⟨0, 2⟩, ⟨0, 5⟩] := by
  let root : View := ⟨0, Layout.ofExts [⟨0, 3⟩, ⟨0, 4⟩, ⟨0, 5⟩]⟩
  have h0 : Reach root root ⟨root.exts, id⟩ := Reach.root
  have h1 := Reach.step (root := root) (Op.call [Arg.idx 2, Arg.rng 1 3, Arg.all]) h0 (by decide +kernel)
  exact ⟨_, _, h1, by decide +kernel⟩

end C01
end Multi
