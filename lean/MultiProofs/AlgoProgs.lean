/-
  MultiProofs.AlgoProgs — libstdc++ sequence algorithms written as programs over the interface of SeqSpec.lean.

  TRUSTED, NOT PROVED: each program below is a HAND TRANSCRIPTION of the loop that libstdc++ (g++ 12, files
  bits/stl_algobase.h, bits/stl_algo.h, bits/stl_numeric.h; line numbers cited per definition) runs for random-access /
  forward iterators: one `read` per `*it` used as a value (argument of a predicate, comparison or operation), one `write`
  per `*it = value`, one `assign` per `*it = *jt` (also `*it = std::move(*jt)`: rows of trivially movable elements),
  one `swap` per `std::iter_swap`, integer arithmetic on positions for `++ -- + - < !=`.  That libstdc++'s code is such a
  program is an assumption; it is validated by the differential run harness/algos.cpp (same algorithm on the view and on
  std::vector of independent values).  What IS proved (AlgoLemmas.lean, C03.lean): the list-level meaning of each program and,
  through `proxy_refines_seq` / `elements_refines_seq`, its effect on any well-formed injective view.

  The interface talks about ONE range `[first, last)`; positions are offsets from `first`.  Algorithms that take two
  ranges are therefore stated for two sub-ranges of one range (two blocks of rows of one view); copying between views of
  different arrays is C05.  Loop counters (`n = last - first`) are the `Nat` arguments.
  sort is transcribed for ranges of at most 16 elements (insertion sort); stable_sort, partial_sort, nth_element, rotate
  are not transcribed: validated only.
-/
import MultiProofs.SeqSpec

namespace Multi

variable {ρ : Type}

/-- `std::fill(first + i, first + i + n, x)` — stl_algobase.h:906-911 `for(; first != last; ++first) *first = value;` -/
def fillProg (x : ρ) : Nat → Int → Prog ρ
  | 0, i => .ret i
  | n + 1, i => .write i x (fillProg x n (i + 1))

/-- `std::copy_n(vals.begin(), vals.size(), first + i)` from a sequence of independent values (also the loop of
    `subarray::operator=(std::initializer_list<value_type>)`) — `*result = *first; ++first; ++result;` -/
def storeProg : List ρ → Int → Prog ρ
  | [], i => .ret i
  | x :: xs, i => .write i x (storeProg xs (i + 1))

/-- `std::copy(first + s, first + s + n, first + d)` and, for trivially movable rows, `std::move(…)` —
    stl_algobase.h:380-388 `for(n = last - first; n > 0; --n) { *result = *first; ++first; ++result; } return result;` -/
def copyProg : Nat → Int → Int → Prog ρ
  | 0, _, d => .ret d
  | n + 1, s, d => .assign d s (copyProg n (s + 1) (d + 1))

/-- `std::copy_backward(first + sEnd - n, first + sEnd, first + dEnd)` — stl_algobase.h:697-703
    `for(n = last - first; n > 0; --n) *--result = *--last; return result;` -/
def copyBackwardProg : Nat → Int → Int → Prog ρ
  | 0, _, d => .ret d
  | n + 1, s, d => .assign (d - 1) (s - 1) (copyBackwardProg n (s - 1) (d - 1))

/-- `std::swap_ranges(first + a, first + a + n, first + b)` — stl_algobase.h:211-213
    `for(; first1 != last1; ++first1, ++first2) std::iter_swap(first1, first2); return first2;` -/
def swapRangesProg : Nat → Int → Int → Prog ρ
  | 0, _, b => .ret b
  | n + 1, a, b => .swap a b (swapRangesProg n (a + 1) (b + 1))

/-- `std::transform(first + s, first + s + n, first + d, f)` — stl_algo.h:4262-4264
    `for(; first != last; ++first, ++result) *result = unary_op(*first); return result;` -/
def transformProg (f : ρ → ρ) : Nat → Int → Int → Prog ρ
  | 0, _, d => .ret d
  | n + 1, s, d => .read s fun x => .write d (f x) (transformProg f n (s + 1) (d + 1))

/-- `std::find_if(first + i, first + i + n, p)` (and `std::find` with `p = (· == value)`) — stl_algobase.h:2050-2052
    `while(first != last && !pred(first)) ++first; return first;` -/
def findProg (p : ρ → Bool) : Nat → Int → Prog ρ
  | 0, i => .ret i
  | n + 1, i => .read i fun x => if p x then .ret i else findProg p n (i + 1)

/-- `std::equal(first + a, first + a + n, first + b)` — stl_algobase.h `__equal<false>::equal`
    `for(; first1 != last1; ++first1, ++first2) if(!(*first1 == *first2)) return false; return true;`  (1 = true) -/
def equalProg (eq : ρ → ρ → Bool) : Nat → Int → Int → Prog ρ
  | 0, _, _ => .ret 1
  | n + 1, a, b => .read a fun x => .read b fun y => if eq x y then equalProg eq n (a + 1) (b + 1) else .ret 0

/-- `std::accumulate(first + i, first + i + n, init, op)` with an integer accumulator — stl_numeric.h:140-142
    `for(; first != last; ++first) init = op(init, *first); return init;` -/
def accumulateProg (op : Int → ρ → Int) : Nat → Int → Int → Prog ρ
  | 0, _, acc => .ret acc
  | n + 1, i, acc => .read i fun x => accumulateProg op n (i + 1) (op acc x)

/-- the loop of `std::__is_sorted_until` from position `i` with `n` comparisons left — stl_algo.h:3215-3219
    `for(++next; next != last; first = next, ++next) if(comp(next, first)) return next; return next;` as a truth value -/
def isSortedLoop (lt : ρ → ρ → Bool) : Nat → Int → Prog ρ
  | 0, _ => .ret 1
  | n + 1, i => .read (i + 1) fun b => .read i fun a => if lt b a then .ret 0 else isSortedLoop lt n (i + 1)

/-- `std::is_sorted(first, first + n)` — stl_algo.h:3212-3213 `if(first == last) return last;` then the loop (1 = true) -/
def isSortedProg (lt : ρ → ρ → Bool) (n : Nat) : Prog ρ := if n = 0 then .ret 1 else isSortedLoop lt (n - 1) 0

/-- `std::lexicographical_compare(first + a, first + a + n1, first + b, first + b + n2)` — stl_algobase.h:1291-1299
    `for(; first1 != last1 && first2 != last2; ++first1, ++first2) { if(*first1 < *first2) return true; if(*first2 < *first1) return false; }
     return first1 == last1 && first2 != last2;`  (1 = true) -/
def lexCompareProg (lt : ρ → ρ → Bool) : Nat → Nat → Int → Int → Prog ρ
  | 0, 0, _, _ => .ret 0
  | 0, _ + 1, _, _ => .ret 1
  | _ + 1, 0, _, _ => .ret 0
  | n1 + 1, n2 + 1, a, b =>
    .read a fun x => .read b fun y =>
      if lt x y then .ret 1 else if lt y x then .ret 0 else lexCompareProg lt n1 n2 (a + 1) (b + 1)

/-- second phase of `std::remove_if` — stl_algo.h `__remove_if`: `for(; first != last; ++first) if(!pred(first)) { *result = std::move(*first); ++result; } return result;`
    (`i` = first, `r` = result) -/
def removeLoop (p : ρ → Bool) : Nat → Int → Int → Prog ρ
  | 0, _, r => .ret r
  | n + 1, i, r => .read i fun x => if p x then removeLoop p n (i + 1) r else .assign r i (removeLoop p n (i + 1) (r + 1))

/-- `std::remove_if(first, first + n, p)` (and `std::remove` with `p = (· == value)`): `first = find_if(first, last, pred);
    if(first == last) return first; result = first; ++first;` then the loop.  `find` phase and loop fused: while nothing has
    been removed yet `result == first` and no assignment is made. -/
def removeFind (p : ρ → Bool) : Nat → Int → Prog ρ
  | 0, i => .ret i
  | n + 1, i => .read i fun x => if p x then removeLoop p n (i + 1) i else removeFind p n (i + 1)

def removeProg (p : ρ → Bool) (n : Nat) : Prog ρ := removeFind p n 0

/- `std::partition(first, first + n, p)` for bidirectional (hence random-access) iterators — stl_algo.h:1470-1493
    `__partition(first, last, pred, bidirectional_iterator_tag)`:
    `while(true) { while(true) if(first == last) return first; else if(pred(*first)) ++first; else break;
                   --last; while(true) if(first == last) return first; else if(!pred(*last)) --last; else break;
                   std::iter_swap(first, last); ++first; }`
    `partFwd` is the first inner loop (at `(lo, hi) = (first, last)`), `partBwd` the second one after `--last`; every step
    shrinks `hi - lo` by one, the `Nat` argument is that loop counter plus one. -/
mutual
def partFwd (p : ρ → Bool) : Nat → Int → Int → Prog ρ
  | 0, lo, _ => .ret lo
  | f + 1, lo, hi =>
    if lo = hi then .ret lo
    else .read lo fun x => if p x then partFwd p f (lo + 1) hi else partBwd p f lo (hi - 1)
def partBwd (p : ρ → Bool) : Nat → Int → Int → Prog ρ
  | 0, lo, _ => .ret lo
  | f + 1, lo, hi =>
    if lo = hi then .ret lo
    else .read hi fun y => if p y then .swap lo hi (partFwd p f (lo + 1) hi) else partBwd p f lo (hi - 1)
end

def partitionProg (p : ρ → Bool) (n : Nat) : Prog ρ := partFwd p (n + 1) 0 n

/-- second phase of `std::unique` — stl_algo.h:911-916 `dest = first; ++first;
    while(++first != last) if(!pred(dest, first)) *++dest = std::move(*first); return ++dest;`  (`d` = dest, `i` = first,
    the `Nat` argument = elements behind `first`) -/
def uniqueLoop (eq : ρ → ρ → Bool) : Nat → Int → Int → Prog ρ
  | 0, d, _ => .ret (d + 1)
  | n + 1, d, i => .read d fun a => .read (i + 1) fun b =>
      if eq a b then uniqueLoop eq n d (i + 1) else .assign (d + 1) (i + 1) (uniqueLoop eq n (d + 1) (i + 1))

/-- first phase of `std::unique`: `std::__adjacent_find` — stl_algo.h:887-896 `if(first == last) return last; next = first;
    while(++next != last) { if(pred(first, next)) return first; first = next; } return last;` followed by
    `if(first == last) return last;` of `__unique` (position `i` = first, the `Nat` argument = elements behind it) -/
def uniqueFind (eq : ρ → ρ → Bool) : Nat → Int → Prog ρ
  | 0, i => .ret (i + 1)
  | n + 1, i => .read i fun a => .read (i + 1) fun b =>
      if eq a b then uniqueLoop eq n i (i + 1) else uniqueFind eq n (i + 1)

/-- `std::unique(first, first + n, eq)` -/
def uniqueProg (eq : ρ → ρ → Bool) (n : Nat) : Prog ρ := if n = 0 then .ret 0 else uniqueFind eq (n - 1) 0

/-- reference for `unique`: drop every element equal (under `eq`) to the last KEPT one -/
def uniqAfter (eq : ρ → ρ → Bool) : ρ → List ρ → List ρ
  | _, [] => []
  | a, b :: r => if eq a b then uniqAfter eq a r else b :: uniqAfter eq b r

def uniq (eq : ρ → ρ → Bool) : List ρ → List ρ
  | [] => []
  | a :: r => a :: uniqAfter eq a r

/-- sequencing: run `p`, discard the position it returns, continue with `k` -/
def Prog.andThen : Prog ρ → Prog ρ → Prog ρ
  | .ret _, k => k
  | .read i f, k => .read i fun x => (f x).andThen k
  | .write i x p, k => .write i x (p.andThen k)
  | .assign i j p, k => .assign i j (p.andThen k)
  | .swap i j p, k => .swap i j (p.andThen k)

/-- `std::__unguarded_linear_insert(first + j, lt)` with the saved value `val`, then `k` — stl_algo.h:1785-1795
    `val = std::move(*last); next = last; --next; while(comp(val, next)) { *last = std::move(*next); last = next; --next; }
     *last = std::move(val);`  Unguarded: the caller has checked that `*first` is not above `val`; the `Nat` argument is `j`
    (out of fuel = the read at `first - 1` that the real code would make: fails here) -/
def linInsert (lt : ρ → ρ → Bool) (val : ρ) (k : Prog ρ) : Nat → Int → Prog ρ
  | 0, j => .read (j - 1) fun _ => .ret 0
  | f + 1, j => .read (j - 1) fun nx =>
      if lt val nx then .assign j (j - 1) (linInsert lt val k f (j - 1)) else .write j val k

/-- the loop of `std::__insertion_sort` at `i` with `n` elements to go — stl_algo.h:1807-1819
    `for(i = first + 1; i != last; ++i) { if(comp(i, first)) { val = std::move(*i); std::move_backward(first, i, i + 1);
     *first = std::move(val); } else std::__unguarded_linear_insert(i, comp); }` -/
def insSortLoop (lt : ρ → ρ → Bool) : Nat → Int → Prog ρ
  | 0, _ => .ret 0
  | n + 1, i => .read i fun x => .read 0 fun f0 =>
      if lt x f0 then (copyBackwardProg i.toNat i (i + 1)).andThen (.write 0 x (insSortLoop lt n (i + 1)))
      else linInsert lt x (insSortLoop lt n (i + 1)) i.toNat i

/-- `std::sort(first, first + n, lt)` for `n ≤ 16` (`_S_threshold`, stl_algo.h:1838): `__introsort_loop` does nothing,
    `__final_insertion_sort` calls `__insertion_sort(first, last)` — stl_algo.h:1805 `if(first == last) return;` then the loop -/
def insertionSortProg (lt : ρ → ρ → Bool) (n : Nat) : Prog ρ := if n = 0 then .ret 0 else insSortLoop lt (n - 1) 1

/-- reference for `is_sorted`: no element is smaller than its predecessor -/
def adjSorted (lt : ρ → ρ → Bool) : List ρ → Bool
  | [] => true
  | [_] => true
  | a :: b :: r => !lt b a && adjSorted lt (b :: r)

/-- the block `[a, a + n)` of a list -/
def seg (xs : List ρ) (a n : Nat) : List ρ := (xs.drop a).take n

end Multi
