/-
  MultiProofs.OwnReext — `reextent(x)` / `reextent(x, v)` on an lvalue, as coded, yields the documented value: extensions `x`,
  every element whose index tuple lies in both the old and the new extensions keeps its value, every other element is the fill value
  (or the value-initialised / indeterminate cell).  Helper lemmas for C06.
-/
import MultiProofs.OwnCopy

namespace Multi
namespace Own
open C02
variable {α : Type}

/-- the cell new elements get -/
def fillCell (cfg : Cfg α) : Option α → Cell α
  | some v => some v
  | none => initCell cfg

/-- **the documented value after `reextent`**: extensions `x` (collapsed); at every index tuple of the new extensions the old element
    if the tuple was inside the old extensions, the fill cell otherwise -/
def reextVal (cfg : Cfg α) (old : AbsArr α) (x : List Ext) (fill : Option α) : AbsArr α :=
  ⟨collapse x, (boxIndices (collapse x)).map fun idx =>
    if InBox old.exts idx then old.elems[(rowMajor old.exts idx).toNat]?.getD none else fillCell cfg fill⟩

/-! ### an array as a view of its block -/

theorem Valid.view_wf {h : Heap α} {a : Arr} (hv : Valid h a) : a.view.lay.WF := by
  obtain ⟨es, hes, hlay⟩ := hv.shape
  show a.lay.WF
  rw [hlay]; exact (C01.root_denotes es hes).1

theorem Valid.addr {h : Heap α} {a : Arr} (hv : Valid h a) {idx : List Int} (hidx : InBox a.exts idx) :
    a.view.addr idx = rowMajor a.exts idx ∧ 0 ≤ rowMajor a.exts idx ∧ rowMajor a.exts idx < a.numElements := by
  obtain ⟨es, hes, hlay⟩ := hv.shape
  have hx : a.exts = collapse es := by unfold Arr.exts; rw [hlay, ofExts_exts hes]
  rw [hx] at hidx
  have hce := collapse_of_inBox es idx hidx
  obtain ⟨_, _, hnum, haddr⟩ := C01.root_denotes es hes
  obtain ⟨a1, a2, a3⟩ := haddr idx hidx
  have hn : a.numElements = nElems es := by unfold Arr.numElements; rw [hlay, hnum]
  rw [hx, hce, hn]
  refine ⟨?_, a2, a3⟩
  rw [addr_eq]; simp only [Arr.view, hlay, a1]; omega

/-- the block of a valid array with elements: exactly its cells -/
theorem Valid.block {h : Heap α} {a : Arr} (hv : Valid h a) (hn : a.numElements ≠ 0) :
    ∃ b, a.base = some b ∧ Live h b (cellsOf h a) ∧ (cellsOf h a).length = a.numElements.toNat := by
  rcases hv.store with hz | ⟨b, cs, hb, hl, hlen⟩
  · exact absurd hz hn
  · refine ⟨b, hb, ?_, hv.cells_length⟩
    rw [cellsOf_live hb hl, List.take_of_length_le (by rw [hlen]; exact Nat.le_refl _)]; exact hl

/-! ### a slice of a view with one range per dimension -/

theorem slice_facts (v : View) (hwf : v.lay.WF) (is : List Ext) (hlen : is.length = v.exts.length) (hD : is ≠ [])
    (hpos : ∀ i ∈ is, i.first < i.last) (hdom : argsInDomain (is.map fun e => Arg.rng e.first e.last) v.exts) :
    NonEmpty (applyExts v is) ∧ (applyExts v is).exts = sliceShape is v.exts ∧
    (boxIndices (applyExts v is).exts).map (applyExts v is).addr = (boxIndices is).map v.addr ∧
    (∀ J ∈ boxIndices is, InBox v.exts J) := by
  obtain ⟨rwf, rex, raddr⟩ := paren_refines (is.map fun e => Arg.rng e.first e.last) v hwf hdom
  unfold applyExts
  rw [callShape_rng is v.exts hlen hpos] at rex raddr
  have hsl := boxIndices_slice is v.exts hlen hpos
  have hshape_pos := sliceShape_ok is v.exts hpos
  have hne : (v.paren (is.map fun e => Arg.rng e.first e.last)).lay ≠ [] := by
    intro e
    have : (v.paren (is.map fun e => Arg.rng e.first e.last)).exts = [] := by simp [View.exts, Layout.exts, e]
    rw [rex] at this
    have hl := sliceShape_length is v.exts hlen
    rw [this] at hl
    exact hD (List.eq_nil_of_length_eq_zero hl.symm)
  refine ⟨⟨rwf, ?_, ?_⟩, rex, ?_, ?_⟩
  · intro e; apply hne
    simp only [Layout.sizes] at e
    exact List.map_eq_nil_iff.mp e
  · intro n hn
    have hs := (C01.shape_functions_agree _ rwf).1
    simp only [View.sizes] at hs
    rw [hs] at hn
    obtain ⟨e, he, rfl⟩ := List.mem_map.mp hn
    rw [rex] at he
    have := hshape_pos e he
    simp only [Ext.size]; omega
  · rw [rex, ← hsl, List.map_map]
    apply List.map_congr_left
    intro t ht
    exact (raddr t ((mem_boxIndices _ _).mp ht)).1
  · intro J hJ
    rw [← hsl] at hJ
    obtain ⟨t, ht, rfl⟩ := List.mem_map.mp hJ
    exact (raddr t ((mem_boxIndices _ _).mp ht)).2

/-- a list of length `n` is the list of its cells -/
theorem list_eq_range_map {β : Type} (cs : List β) (dflt : β) : cs = (List.range cs.length).map fun k => cs[k]?.getD dflt := by
  apply List.ext_getElem?
  intro i
  by_cases hi : i < cs.length
  · simp [hi]
  · simp [hi]

theorem collapse_length (es : List Ext) : (collapse es).length = es.length := by
  induction es with
  | nil => rfl
  | cons e es ih => simp [collapse, ih]

theorem arr_exts_length (a : Arr) : a.exts.length = a.dim := by simp [Arr.exts, Arr.dim, Layout.exts]

/-- build the new array first, release the old block afterwards -/
theorem outcome_then_dealloc {h h3 : Heap α} {a a' : Arr} {val : AbsArr α} (hv : Valid h a)
    (ho : Outcome h h3 (fun _ => False) a' val) : Outcome h (deallocate h3 a) (ownBlock a) a' val := by
  obtain ⟨va3, _⟩ := hv.frame ho.frame (fun _ _ _ hf => hf)
  obtain ⟨f3, u3, s3⟩ := deallocate_frame va3
  have hout : a'.numElements ≠ 0 → ∀ b, a'.base = some b → ¬ (a.numElements ≠ 0 ∧ a.base = some b) := by
    intro hn b hb hm
    rcases ho.own hn b hb with hf | hf
    · exact hf
    · obtain ⟨b', hb', hl, _⟩ := hv.block hm.1
      rw [hm.2] at hb'
      have h2 : b = b' := Option.some.inj hb'
      subst h2
      exact absurd hl.lt (Nat.not_lt.mpr hf)
  obtain ⟨v4, c4⟩ := ho.valid.frame f3 hout
  refine ⟨(ho.frame.mono (fun _ hf => False.elim hf)).trans f3, by rw [u3, ho.ub], by rw [s3, ho.asrt], v4, ?_, ?_, ?_⟩
  · rw [← ho.abs]; unfold absArr; rw [c4]
  · intro hn b hb
    rcases ho.own hn b hb with hf | hf
    · exact False.elim hf
    · exact Or.inr hf
  · rw [deallocate_length]; exact ho.len

theorem reextent_unfold (cfg : Cfg α) (h : Heap α) (a : Arr) (x : List Ext) (fill : Option α) (hne : Exts.eqv x a.exts = false) :
    let tl := Layout.ofExts x
    let h1 := (h.alloc tl.numElements).1
    let p := (h.alloc tl.numElements).2
    let h2 := match fill with
      | none => valueConstruct cfg h1 p tl.numElements
      | some v => h1.fillN p tl.numElements.toNat (some v)
    let is := Exts.inter a.exts tl.exts
    reextent cfg h a x fill =
      (deallocate (if Exts.numElements is = 0 then h2 else copyElems h2 a.base (applyExts a.view is) p (applyExts (⟨p, tl⟩ : Arr).view is)) a,
       ⟨p, tl⟩) := by
  unfold reextent
  simp only [hne, Bool.false_eq_true, if_false]
  rfl

/-- the freshly initialised block of `reextent` -/
theorem reextent_init (cfg : Cfg α) (h : Heap α) {x : List Ext} (hx : ExtsOK x) (fill : Option α) :
    let tl := Layout.ofExts x
    let h1 := (h.alloc tl.numElements).1
    let p := (h.alloc tl.numElements).2
    let h2 := match fill with
      | none => valueConstruct cfg h1 p tl.numElements
      | some v => h1.fillN p tl.numElements.toNat (some v)
    Outcome h h2 (fun _ => False) ⟨p, tl⟩ ⟨collapse x, List.replicate (nElems x).toNat (fillCell cfg fill)⟩ := by
  cases fill with
  | none => exact extsCtor_outcome cfg h hx
  | some v => exact fillCtor_outcome h hx v

/-- **`reextent` on an lvalue to other extensions, as coded, yields the documented value** and touches nothing but the own block -/
theorem reextent_outcome (cfg : Cfg α) {h : Heap α} {a : Arr} (hv : Valid h a) {x : List Ext} (hx : ExtsOK x)
    (hlen : x.length = a.dim) (hD : a.dim ≠ 0) (fill : Option α) (hne : Exts.eqv x a.exts = false) :
    Outcome h (reextent cfg h a x fill).1 (ownBlock a) (reextent cfg h a x fill).2 (reextVal cfg (absArr h a) x fill) := by
  rw [reextent_unfold cfg h a x fill hne]
  have ho2 := reextent_init cfg h hx fill
  simp only at ho2 ⊢
  generalize hh2 : (match fill with
      | none => valueConstruct cfg (h.alloc (Layout.ofExts x).numElements).1 (h.alloc (Layout.ofExts x).numElements).2 (Layout.ofExts x).numElements
      | some v => (h.alloc (Layout.ofExts x).numElements).1.fillN (h.alloc (Layout.ofExts x).numElements).2 (Layout.ofExts x).numElements.toNat (some v)) = h2 at ho2 ⊢
  generalize hp : (h.alloc (Layout.ofExts x).numElements).2 = p at ho2 ⊢
  apply outcome_then_dealloc hv
  -- names
  have htx : (⟨p, Layout.ofExts x⟩ : Arr).exts = collapse x := ofExts_exts hx
  have htn : (⟨p, Layout.ofExts x⟩ : Arr).numElements = nElems x := ofExts_numElements hx
  have hXok : ExtsOK (collapse x) := collapse_ok hx
  have hlen2 : a.exts.length = (Layout.ofExts x).exts.length := by
    rw [arr_exts_length, ofExts_exts hx, collapse_length, hlen]
  have hc : ∀ k, k < (nElems x).toNat → (List.replicate (nElems x).toNat (fillCell cfg fill))[k]? = some (fillCell cfg fill) := by
    intro k hk; simp [hk]
  by_cases hz : Exts.numElements (Exts.inter a.exts (Layout.ofExts x).exts) = 0
  · -- nothing in common: every element is the fill cell
    simp only [hz, if_true]
    have hval : reextVal cfg (absArr h a) x fill = ⟨collapse x, List.replicate (nElems x).toNat (fillCell cfg fill)⟩ := by
      unfold reextVal
      congr 1
      have hconst : ∀ idx ∈ boxIndices (collapse x), (if InBox (absArr h a).exts idx then (absArr h a).elems[(rowMajor (absArr h a).exts idx).toNat]?.getD none
          else fillCell cfg fill) = fillCell cfg fill := by
        intro idx hidx
        have hin := (mem_boxIndices _ _).mp hidx
        have hnot : ¬ InBox a.exts idx := by
          intro hia
          have := (inBox_inter a.exts (Layout.ofExts x).exts idx hlen2).mpr ⟨hia, by rw [ofExts_exts hx]; exact hin⟩
          exact nElems_ne_zero_of_inBox _ _ this (by rw [← numElements_eq_nElems]; exact hz)
        simp [absArr, hnot]
      rw [List.map_congr_left hconst, List.map_const', boxIndices_length hXok, nElems_collapse]
    rw [hval]; exact ho2
  · simp only [hz, if_false]
    -- the common part is not empty: both arrays have elements
    have his : nElems (Exts.inter a.exts (Layout.ofExts x).exts) ≠ 0 := by rw [← numElements_eq_nElems]; exact hz
    have hisok := inter_ok a.exts (Layout.ofExts x).exts
    have hpos := pos_of_nElems_ne_zero _ hisok his
    obtain ⟨dom_s, dom_d⟩ := inter_inDomain a.exts (Layout.ofExts x).exts hlen2 hpos
    have hislen : (Exts.inter a.exts (Layout.ofExts x).exts).length = a.exts.length := inter_length _ _ hlen2
    have hisne : Exts.inter a.exts (Layout.ofExts x).exts ≠ [] := by
      intro e; rw [e] at hislen; rw [arr_exts_length] at hislen; exact hD hislen.symm
    obtain ⟨va2, ca2⟩ := hv.frame ho2.frame (fun _ _ _ hf => hf)
    have vt2 := ho2.valid
    obtain ⟨ne_s, ex_s, ad_s, in_s⟩ := slice_facts a.view va2.view_wf _ hislen hisne hpos dom_s
    obtain ⟨ne_d, ex_d, ad_d, in_d⟩ := slice_facts (⟨p, Layout.ofExts x⟩ : Arr).view vt2.view_wf _ (by rw [hislen]; exact hlen2) hisne hpos dom_d
    -- a witness tuple
    have hLne : boxIndices (Exts.inter a.exts (Layout.ofExts x).exts) ≠ [] := by
      intro e
      have := boxIndices_length hisok
      rw [e] at this
      have h0 := nElems_nonneg hisok
      simp at this; omega
    obtain ⟨J0, hJ0⟩ := List.exists_mem_of_ne_nil _ hLne
    have han : a.numElements ≠ 0 := by rw [← hv.nElems_exts]; exact nElems_ne_zero_of_inBox _ _ (in_s J0 hJ0)
    have htn0 : (⟨p, Layout.ofExts x⟩ : Arr).numElements ≠ 0 := by
      rw [← vt2.nElems_exts]; exact nElems_ne_zero_of_inBox _ _ (in_d J0 hJ0)
    obtain ⟨s, hsb, hsl, hslen⟩ := va2.block han
    obtain ⟨d, hdb, hdl, hdlen⟩ := vt2.block htn0
    have hdb' : p = some d := hdb
    subst hdb'
    have hdcells : cellsOf h2 ⟨some d, Layout.ofExts x⟩ = List.replicate (nElems x).toNat (fillCell cfg fill) := congrArg AbsArr.elems ho2.abs
    have hsd : s ≠ d := by
      intro e
      obtain ⟨s', hs', hl', _⟩ := hv.block han
      rw [hsb] at hs'
      have e2 : s = s' := Option.some.inj hs'
      rcases ho2.own htn0 d hdb with hf | hf
      · exact hf
      · exact absurd hl'.lt (Nat.not_lt.mpr (by rw [← e2, e]; exact hf))
    -- addresses of the common tuples
    have hsaddr : ∀ J ∈ boxIndices (Exts.inter a.exts (Layout.ofExts x).exts),
        a.view.addr J = rowMajor a.exts J ∧ 0 ≤ rowMajor a.exts J ∧ rowMajor a.exts J < a.numElements := fun J hJ => va2.addr (in_s J hJ)
    have hdaddr : ∀ J, InBox (collapse x) J →
        (⟨some d, Layout.ofExts x⟩ : Arr).view.addr J = rowMajor (collapse x) J ∧ 0 ≤ rowMajor (collapse x) J ∧ rowMajor (collapse x) J < nElems x := by
      intro J hJ
      have := vt2.addr (idx := J) (by rw [htx]; exact hJ)
      rw [htx, htn] at this; exact this
    have hind : ∀ J ∈ boxIndices (Exts.inter a.exts (Layout.ofExts x).exts), InBox (collapse x) J := fun J hJ => by
      have h1 : InBox (⟨some d, Layout.ofExts x⟩ : Arr).exts J := in_d J hJ
      rw [htx] at h1; exact h1
    have hcopy := copyElems_live hsl hdl hsd _ _ ne_s ne_d
      (by rw [ex_d, ex_s]; exact (nElems_sliceShape _ _ (by rw [hislen]; exact hlen2)).trans (nElems_sliceShape _ _ hislen).symm)
      (by
        intro idx hidx
        have : (applyExts a.view _).addr idx ∈ (boxIndices (applyExts a.view (Exts.inter a.exts (Layout.ofExts x).exts)).exts).map
            (applyExts a.view (Exts.inter a.exts (Layout.ofExts x).exts)).addr := List.mem_map.mpr ⟨idx, hidx, rfl⟩
        rw [ad_s] at this
        obtain ⟨J, hJ, e⟩ := List.mem_map.mp this
        rw [← e]
        obtain ⟨e1, e2, e3⟩ := hsaddr J hJ
        rw [e1, hslen]; exact ⟨e2, by omega⟩)
      (by
        intro idx hidx
        have : (applyExts (⟨some d, Layout.ofExts x⟩ : Arr).view _).addr idx ∈ (boxIndices (applyExts (⟨some d, Layout.ofExts x⟩ : Arr).view (Exts.inter a.exts (Layout.ofExts x).exts)).exts).map
            (applyExts (⟨some d, Layout.ofExts x⟩ : Arr).view (Exts.inter a.exts (Layout.ofExts x).exts)).addr := List.mem_map.mpr ⟨idx, hidx, rfl⟩
        rw [ad_d] at this
        obtain ⟨J, hJ, e⟩ := List.mem_map.mp this
        rw [← e]
        obtain ⟨e1, e2, e3⟩ := hdaddr J (hind J hJ)
        rw [e1, hdlen, htn]; exact ⟨e2, by omega⟩)
    rw [hsb, hcopy, ad_s, ad_d, zip_map_map, List.map_map, hdcells]
    -- the new cells
    generalize hcs : setMany (List.replicate (nElems x).toNat (fillCell cfg fill))
      (List.map ((fun ba : Int × Int => (ba.1.toNat, (cellsOf h2 a)[ba.2.toNat]?.getD none)) ∘
        fun J => ((⟨some d, Layout.ofExts x⟩ : Arr).view.addr J, a.view.addr J)) (boxIndices (Exts.inter a.exts (Layout.ofExts x).exts))) = cells'
    have hfam := setMany_family (boxIndices (Exts.inter a.exts (Layout.ofExts x).exts))
      (fun J => ((⟨some d, Layout.ofExts x⟩ : Arr).view.addr J).toNat) (fun J => (cellsOf h2 a)[(a.view.addr J).toNat]?.getD none)
      (List.replicate (nElems x).toNat (fillCell cfg fill)) (boxIndices_nodup _)
      (by
        intro i hi j hj e
        obtain ⟨i1, i2, _⟩ := hdaddr i (hind i hi)
        obtain ⟨j1, j2, _⟩ := hdaddr j (hind j hj)
        rw [i1, j1] at e
        exact rowMajor_inj (hind i hi) (hind j hj) (by omega))
      (by
        intro i hi
        obtain ⟨i1, i2, i3⟩ := hdaddr i (hind i hi)
        simp only [List.length_replicate]; rw [i1]; omega)
    have hfam' : (∀ J ∈ boxIndices (Exts.inter a.exts (Layout.ofExts x).exts),
          cells'[((⟨some d, Layout.ofExts x⟩ : Arr).view.addr J).toNat]? = some ((cellsOf h2 a)[(a.view.addr J).toNat]?.getD none)) ∧
        (∀ j, (∀ J ∈ boxIndices (Exts.inter a.exts (Layout.ofExts x).exts), ((⟨some d, Layout.ofExts x⟩ : Arr).view.addr J).toNat ≠ j) →
          cells'[j]? = (List.replicate (nElems x).toNat (fillCell cfg fill))[j]?) := by
      rw [← hcs]; exact hfam
    have hclen : cells'.length = (nElems x).toNat := by rw [← hcs]; simp
    have hl' := hdl.setBlock_same cells'
    refine ⟨?_, by simp [ho2.ub], by simp [ho2.asrt], ⟨⟨x, hx, rfl⟩, Or.inr ⟨d, cells', hdb, hl', by rw [hclen, htn]⟩⟩, ?_, ?_, ?_⟩
    · intro b cs hl _
      have h2l := ho2.frame b cs hl (fun hf => hf)
      apply h2l.setBlock_other
      intro e
      rcases ho2.own htn0 d hdb with hf | hf
      · exact hf
      · exact absurd hl.lt (Nat.not_lt.mpr (by rw [← e]; exact hf))
    · -- the value
      unfold reextVal
      apply absArr_eq htx
      rw [cellsOf_live hdb hl', htn, List.take_of_length_le (by rw [hclen]; exact Nat.le_refl _)]
      have hrank := boxIndices_rank (collapse x) hXok
      rw [nElems_collapse] at hrank
      rw [list_eq_range_map cells' none, hclen, ← hrank, List.map_map]
      apply List.map_congr_left
      intro idx hidx
      have hin := (mem_boxIndices _ _).mp hidx
      obtain ⟨d1, d2, d3⟩ := hdaddr idx hin
      simp only [Function.comp]
      have hpidx : (rowMajor (collapse x) idx).toNat = ((⟨some d, Layout.ofExts x⟩ : Arr).view.addr idx).toNat := by rw [d1]
      by_cases hia : InBox a.exts idx
      · have hmem : idx ∈ boxIndices (Exts.inter a.exts (Layout.ofExts x).exts) :=
          (mem_boxIndices _ _).mpr ((inBox_inter _ _ idx hlen2).mpr ⟨hia, by rw [ofExts_exts hx]; exact hin⟩)
        rw [hpidx, hfam'.1 idx hmem]
        obtain ⟨e1, _, _⟩ := hsaddr idx hmem
        simp [absArr, hia, e1, ca2]
      · have hnot : ∀ J ∈ boxIndices (Exts.inter a.exts (Layout.ofExts x).exts), ((⟨some d, Layout.ofExts x⟩ : Arr).view.addr J).toNat ≠ (rowMajor (collapse x) idx).toNat := by
          intro J hJ e
          obtain ⟨j1, j2, _⟩ := hdaddr J (hind J hJ)
          rw [j1] at e
          have : J = idx := rowMajor_inj (hind J hJ) hin (by omega)
          exact hia (this ▸ in_s J hJ)
        rw [hfam'.2 _ hnot, hc _ (by omega)]
        simp [absArr, hia]
    · intro _ b hb
      exact ho2.own htn0 b hb
    · simp [Heap.setBlock]; exact ho2.len

end Own
end Multi
