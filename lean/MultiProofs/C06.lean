/-
  C06 — reextent keeps the common part; clear, reshape and assign do what they say.

  Property theorems only (vocabulary: see C04.lean / OwnSpec.lean / OwnStep.lean).

    * `reextent_extents`      after `reextent(x)` (any overload, any prior state) the array reports the extensions `x` (collapsed)
    * `reextent_noop`         reextent to the current extensions: same block, same layout, same heap — storage, iterators, views stay valid
    * `reextent_moved_law`    `std::move(A).reextent(x)`: extensions `x`, every element value-initialised (indeterminate for a trivial `T`)
    * `reextent_law`, `reextent_law_values`  the law for the lvalue overloads: common part kept, the rest = fill / value-initialised
    * `clear_empty`, `reshape_flat`, `assign_exact`, `assign_range_exact`, `assign_list_exact`
-/
import MultiProofs.OwnStep
import MultiProofs.OwnObs
import MultiProofs.OwnLaw

namespace Multi
namespace C06
open Own
variable {α : Type}

/-- **new extents are `x`**: every `reextent` overload, from any valid array, yields an array built for `x`; it reports `collapse x`
    (`x` itself unless some extent of `x` is empty, in which case the array is empty) and has `Π sizes of x` elements -/
theorem reextent_extents (cfg : Cfg α) (h : Heap α) (a : Arr) (hv : Valid h a) (x : List Ext) (hx : ExtsOK x) (fill : Option α) :
    (reextent cfg h a x fill).2.exts = collapse x ∧ (reextent cfg h a x fill).2.numElements = nElems x ∧
    (reextentMoved cfg h a x).2.exts = collapse x ∧ (reextentMoved cfg h a x).2.numElements = nElems x := by
  have same : Exts.eqv x a.exts = true → a.exts = collapse x ∧ a.numElements = nElems x := by
    intro he
    -- `==` on extensions is symmetric in the sense needed here: compare through the collapsed form
    have hsymm : Exts.eqv a.exts x = true := by rw [eqv_comm]; exact he
    have e := eqv_collapse _ _ hv.exts_fix hsymm
    exact ⟨e.symm, by rw [← hv.nElems_exts, ← e, nElems_collapse]⟩
  unfold reextent reextentMoved
  by_cases he : Exts.eqv x a.exts = true
  · simp only [he, if_true]
    exact ⟨(same he).1, (same he).2, (same he).1, (same he).2⟩
  · simp only [he, Bool.false_eq_true, if_false]
    exact ⟨ofExts_exts hx, ofExts_numElements hx, ofExts_exts hx, ofExts_numElements hx⟩

/-- **reextent to the current extensions keeps everything**: the heap, the block and the layout are the same objects, so `data_elements()`,
    iterators and views taken before remain valid (all three overloads) -/
theorem reextent_noop (cfg : Cfg α) (h : Heap α) (a : Arr) (x : List Ext) (fill : Option α) (hx : Exts.eqv x a.exts = true) :
    reextent cfg h a x fill = (h, a) ∧ reextentMoved cfg h a x = (h, a) := by
  constructor
  · exact reextent_same cfg h a x fill hx
  · unfold reextentMoved; simp [hx]

/-- and at pool level: the step is the identity -/
theorem reextent_noop_pool (cfg : Cfg α) (p : Pool α) (k : Nat) (a : Arr) (ha : p.arrs k = some a) (x : List Ext) (fill : Option α)
    (hx : Exts.eqv x a.exts = true) : step cfg p (.reextSame k x fill) = p := by
  simp only [step, ha, reextent_same cfg p.heap a x fill hx]
  exact Pool.set_same p ha

/-- **`std::move(A).reextent(x)`**: extensions `x`; every element is value-initialised (indeterminate for a trivially default
    constructible `T`); nothing else in the pool changes; for the current extensions nothing changes at all -/
theorem reextent_moved_law (cfg : Cfg α) (p : Pool α) (hi : Inv p) (k : Nat) (a : Arr) (ha : p.arrs k = some a) (x : List Ext) (hx : ExtsOK x) :
    let p1 := step cfg p (.reextm k x)
    Inv p1 ∧ (∀ j, j ≠ k → absPool p1 j = absPool p j) ∧
    absPool p1 k = some (if Exts.eqv x a.exts = true then absArr p.heap a else ⟨collapse x, List.replicate (nElems x).toNat (initCell cfg)⟩) := by
  intro p1
  obtain ⟨i1, a1⟩ := step_refines cfg p hi (.reextm k x) ⟨a, ha, hx⟩
  refine ⟨i1, fun j hj => by rw [a1]; exact upd_other _ _ hj, ?_⟩
  rw [a1]; simp [specStep, absPool_some ha, absArr]

/-- **the law of `reextent(x)` / `reextent(x, v)` on an lvalue, values.**  For an array of dimensionality ≥ 1 in a pool satisfying the
    invariant, any well-formed `x` of the same dimensionality and any prior state: the invariant holds afterwards, no other array's value
    changes, and the array's value is: unchanged if `x` are the current extensions, otherwise `reextVal` — extensions `x` (collapsed), at
    every index tuple of `x` the old element if the tuple lies in the old extensions, the fill value `v` (resp. the value-initialised
    cell, or an indeterminate one for a trivially default constructible `T`) otherwise. -/
theorem reextent_law_values (cfg : Cfg α) (p : Pool α) (hi : Inv p) (k : Nat) (a : Arr) (ha : p.arrs k = some a) (x : List Ext) (hx : ExtsOK x)
    (hlen : x.length = a.dim) (hD : a.dim ≠ 0) (fill : Option α) :
    let p1 := step cfg p (.reext k x fill)
    Inv p1 ∧ (∀ j, j ≠ k → absPool p1 j = absPool p j) ∧
    absPool p1 k = some (if Exts.eqv x a.exts = true then absArr p.heap a else reextVal cfg (absArr p.heap a) x fill) := by
  intro p1
  obtain ⟨i1, a1⟩ := step_refines cfg p hi (.reext k x fill) ⟨a, ha, hx, hlen, hD⟩
  refine ⟨i1, fun j hj => by rw [a1]; exact upd_other _ _ hj, ?_⟩
  rw [a1]; simp [specStep, absPool_some ha, absArr]

/-- **the law of `reextent`, element by element** (what the property says): after `A.reextent(x)` / `A.reextent(x, v)`
    * the array reports the extensions `x` (collapsed: all `[0,0)` if some extent of `x` is empty),
    * every element whose index tuple lies in both the old and the new extensions keeps its value,
    * every other element equals the fill cell (`v`; without `v`: `T{}`, or indeterminate for a trivially default constructible `T`),
    * the pool invariant holds (the array is valid, owns a block no other array owns) and no other array changes. -/
theorem reextent_law (cfg : Cfg α) (p : Pool α) (hi : Inv p) (k : Nat) (a : Arr) (ha : p.arrs k = some a) (x : List Ext) (hx : ExtsOK x)
    (hlen : x.length = a.dim) (hD : a.dim ≠ 0) (fill : Option α) :
    let p1 := step cfg p (.reext k x fill)
    Inv p1 ∧ (∀ j, j ≠ k → absPool p1 j = absPool p j) ∧
    ∃ a', p1.arrs k = some a' ∧ a'.exts = collapse x ∧
      (∀ idx, InBox (collapse x) idx → InBox a.exts idx → readAt p1.heap a' idx = readAt p.heap a idx) ∧
      (∀ idx, InBox (collapse x) idx → ¬ InBox a.exts idx → readAt p1.heap a' idx = some (fillCell cfg fill)) := by
  intro p1
  obtain ⟨i1, hoth, hval⟩ := reextent_law_values cfg p hi k a ha x hx hlen hD fill
  have hva := hi.valid k a ha
  refine ⟨i1, hoth, ?_⟩
  -- the new occupant of slot k
  have hsome : ∃ a', p1.arrs k = some a' := by
    have : absPool p1 k ≠ none := by rw [hval]; simp
    cases h : p1.arrs k with
    | none => simp [absPool, h] at this
    | some a' => exact ⟨a', rfl⟩
  obtain ⟨a', ha'⟩ := hsome
  have hva' := i1.valid k a' ha'
  have habs : absArr p1.heap a' = (if Exts.eqv x a.exts = true then absArr p.heap a else reextVal cfg (absArr p.heap a) x fill) := by
    have := hval; rw [absPool_some ha'] at this; exact Option.some.inj this
  by_cases he : Exts.eqv x a.exts = true
  · -- same extensions: nothing changed
    rw [if_pos he] at habs
    have hcx : collapse x = a.exts := by
      have : Exts.eqv a.exts x = true := by rw [eqv_comm]; exact he
      exact eqv_collapse _ _ hva.exts_fix this
    have hex : a'.exts = a.exts := congrArg AbsArr.exts habs
    have hel : cellsOf p1.heap a' = cellsOf p.heap a := congrArg AbsArr.elems habs
    refine ⟨a', ha', by rw [hex, hcx], ?_, ?_⟩
    · intro idx _ hia
      rw [(readAt_valid hva' (hex ▸ hia)).1, (readAt_valid hva hia).1, hel, hex]
    · intro idx hin hnot; rw [hcx] at hin; exact absurd hin hnot
  · rw [if_neg he] at habs
    have hex : a'.exts = collapse x := congrArg AbsArr.exts habs
    have hel : cellsOf p1.heap a' = (reextVal cfg (absArr p.heap a) x fill).elems := congrArg AbsArr.elems habs
    refine ⟨a', ha', hex, ?_, ?_⟩
    · intro idx hin hia
      rw [(readAt_valid hva' (hex ▸ hin)).1, hel, hex, reextVal_at cfg _ x hx fill hin]
      have : InBox (absArr p.heap a).exts idx := hia
      rw [if_pos this]
      obtain ⟨r1, r2⟩ := readAt_valid hva hia
      rw [r1]
      show some ((cellsOf p.heap a)[(rowMajor a.exts idx).toNat]?.getD none) = _
      rw [List.getElem?_eq_getElem r2]; rfl
    · intro idx hin hnot
      rw [(readAt_valid hva' (hex ▸ hin)).1, hel, hex, reextVal_at cfg _ x hx fill hin]
      have : ¬ InBox (absArr p.heap a).exts idx := hnot
      rw [if_neg this]

/-- **`clear()` (and `A = {}`) leave an empty valid array**; the other arrays keep their values -/
theorem clear_empty (cfg : Cfg α) (p : Pool α) (hi : Inv p) (k : Nat) (a : Arr) (ha : p.arrs k = some a) (hD : a.dim ≠ 0) :
    let p1 := step cfg p (.clear k)
    Inv p1 ∧ absPool p1 k = some (emptyVal a.dim) ∧ (∀ j, j ≠ k → absPool p1 j = absPool p j) ∧
    ilAssign p.heap a 0 [] ([] : List α) = clear p.heap a := by
  intro p1
  obtain ⟨i1, a1⟩ := step_refines cfg p hi (.clear k) ⟨a, ha, hD⟩
  refine ⟨i1, ?_, fun j hj => by rw [a1]; exact upd_other _ _ hj, by simp [ilAssign]⟩
  rw [a1]; simp [specStep, absPool_some ha, absArr, exts_length]

/-- **`reshape` to extensions with the same element count preserves the flat element sequence** and the storage -/
theorem reshape_flat (cfg : Cfg α) (p : Pool α) (hi : Inv p) (k : Nat) (a : Arr) (ha : p.arrs k = some a) (es : List Ext) (hes : ExtsOK es)
    (hn : nElems es = a.numElements) :
    let p1 := step cfg p (.reshape k es)
    Inv p1 ∧ p1.heap = p.heap ∧ absPool p1 k = some ⟨collapse es, (absArr p.heap a).elems⟩ ∧
    (∀ j, j ≠ k → absPool p1 j = absPool p j) ∧ (reshape p.heap a es).2.base = a.base := by
  intro p1
  obtain ⟨i1, a1⟩ := step_refines cfg p hi (.reshape k es) ⟨a, ha, hes, hn⟩
  obtain ⟨_, e1, e2⟩ := reshape_outcome (hi.valid k a ha) hes hn
  refine ⟨i1, ?_, ?_, fun j hj => by rw [a1]; exact upd_other _ _ hj, e2⟩
  · show (step cfg p (.reshape k es)).heap = p.heap
    simp only [step, ha, Pool.set_heap, Pool.withHeap_heap]; exact e1
  · rw [a1]; simp [specStep, absPool_some ha]

/-- **`assign(extensions, v)` produces exactly the requested contents**, whatever the prior state -/
theorem assign_exact (cfg : Cfg α) (p : Pool α) (hi : Inv p) (k : Nat) (a : Arr) (ha : p.arrs k = some a) (hD : a.dim ≠ 0) (es : List Ext)
    (hes : ExtsOK es) (v : α) :
    let p1 := step cfg p (.assignf k es v)
    Inv p1 ∧ absPool p1 k = some ⟨collapse es, List.replicate (nElems es).toNat (some v)⟩ ∧ (∀ j, j ≠ k → absPool p1 j = absPool p j) := by
  intro p1
  obtain ⟨i1, a1⟩ := step_refines cfg p hi (.assignf k es v) ⟨a, ha, hD, hes⟩
  refine ⟨i1, ?_, fun j hj => by rw [a1]; exact upd_other _ _ hj⟩
  rw [a1]; simp [specStep]

/-- **contents from a range / nested initializer list**: the array built from `count` sub-arrays of extensions `inner` and the values
    `vals` (in order) has exactly these extensions and elements; `assign(first,last)` / `operator=(initializer_list)` with another shape
    is this construction followed by a move assignment (`C04.move_assign_leaves_empty_valid`), an empty initializer list is `clear` -/
theorem assign_range_exact (cfg : Cfg α) (p : Pool α) (hi : Inv p) (k : Nat) (hk : p.arrs k = none) (count : Int) (inner : List Ext)
    (vals : List α) (hes : ExtsOK (rangeExts count inner)) (hlen : (vals.length : Int) = nElems (rangeExts count inner)) :
    let p1 := step cfg p (.range k count inner vals)
    Inv p1 ∧ absPool p1 k = some ⟨collapse (rangeExts count inner), vals.map some⟩ ∧
    (∀ (h : Heap α) (self : Arr), ¬ (count = self.view.size ∧ (count = 0 ∨ Exts.eqv inner (self.view.index self.view.ext.first).exts = true)) →
      assignRange h self count inner vals =
        (dtor (moveAssign (rangeCtor h count inner vals).1 self (rangeCtor h count inner vals).2).1
              (moveAssign (rangeCtor h count inner vals).1 self (rangeCtor h count inner vals).2).2.2,
         (moveAssign (rangeCtor h count inner vals).1 self (rangeCtor h count inner vals).2).2.1)) := by
  intro p1
  obtain ⟨i1, a1⟩ := step_refines cfg p hi (.range k count inner vals) ⟨hk, hes, hlen⟩
  refine ⟨i1, by rw [a1]; simp [specStep], ?_⟩
  intro h self hcond
  unfold assignRange
  simp only [hcond, if_false]

/-- **`assign(first,last)` and assignment from an initializer list produce exactly the requested contents**, over any prior state, in
    place (same rows and inner extensions: block and index bases kept) or not; `A = {}` clears; no other array changes -/
theorem assign_list_exact (cfg : Cfg α) (p : Pool α) (hi : Inv p) (k : Nat) (a : Arr) (ha : p.arrs k = some a) (hD : a.dim ≠ 0)
    (count : Int) (inner : List Ext) (vals : List α) (hes : ExtsOK (rangeExts count inner))
    (hlen : (vals.length : Int) = nElems (rangeExts count inner)) :
    let p1 := step cfg p (.assignr k count inner vals)
    let p2 := step cfg p (.ilassign k count inner vals)
    Inv p1 ∧ Inv p2 ∧ (∀ j, j ≠ k → absPool p1 j = absPool p j ∧ absPool p2 j = absPool p j) ∧
    absPool p1 k = some (listVal (absArr p.heap a) count inner vals) ∧ (listVal (absArr p.heap a) count inner vals).elems = vals.map some ∧
    absPool p2 k = some (if count = 0 then emptyVal a.dim else listVal (absArr p.heap a) count inner vals) := by
  intro p1 p2
  obtain ⟨i1, a1⟩ := step_refines cfg p hi (.assignr k count inner vals) ⟨a, ha, hD, hes, hlen⟩
  obtain ⟨i2, a2⟩ := step_refines cfg p hi (.ilassign k count inner vals) ⟨a, ha, hD, hes, hlen⟩
  refine ⟨i1, i2, fun j hj => ⟨by rw [a1]; exact upd_other _ _ hj, by rw [a2]; exact upd_other _ _ hj⟩, ?_, ?_, ?_⟩
  · rw [a1]; simp [specStep, absPool_some ha]
  · unfold listVal; split <;> rfl
  · rw [a2]; simp [specStep, absPool_some ha, absArr, exts_length]

/-! ### non-vacuity -/

/-- `A(2×3, 7)`; `A.reshape(3×2)`; `A.assign(1×2 based at 5, 4)`; `A.clear()` — values as documented -/
example :
    let cfg : Cfg Int := ⟨false, 0⟩
    let ops : List (VOp Int) := [.fill 0 [⟨0, 2⟩, ⟨0, 3⟩] 7, .reshape 0 [⟨0, 3⟩, ⟨0, 2⟩], .assignf 0 [⟨5, 6⟩, ⟨0, 2⟩] 4]
    specRun cfg (fun _ => none) ops 0 = some ⟨[⟨5, 6⟩, ⟨0, 2⟩], [some 4, some 4]⟩ ∧
    specRun cfg (fun _ => none) (ops ++ [.clear 0]) 0 = some ⟨[⟨0, 0⟩, ⟨0, 0⟩], []⟩ := by
  constructor <;> rfl

/-- the documented value of a concrete reextent: 2×3 (all 7, one 9) → 3×2 with fill 5 keeps the common 2×2 block and fills the rest;
    with index bases: [1,3)×[0,2) → [0,2)×[1,3) keeps the single common element (1,1) -/
example :
    let cfg : Cfg Int := ⟨true, 0⟩
    let r1 := specRun cfg (fun _ => none) [.fill 0 [⟨0, 2⟩, ⟨0, 3⟩] 7, .write 0 [1, 1] 9, .reext 0 [⟨0, 3⟩, ⟨0, 2⟩] (some 5)] 0
    let r2 := specRun cfg (fun _ => none) [.fill 0 [⟨1, 3⟩, ⟨0, 2⟩] 7, .write 0 [1, 1] 9, .reext 0 [⟨0, 2⟩, ⟨1, 3⟩] none] 0
    r1.map (·.exts) = some [⟨0, 3⟩, ⟨0, 2⟩] ∧ r1.map (·.elems) = some [some 7, some 7, some 7, some 9, some 5, some 5] ∧
    r2.map (·.exts) = some [⟨0, 2⟩, ⟨1, 3⟩] ∧ r2.map (·.elems) = some [none, none, some 9, none] := by
  decide

/-- the hypotheses of `reextent_law` are satisfiable: the history above is in domain from the empty pool -/
example : InDomAll (⟨true, 0⟩ : Cfg Int) Pool.empty [.fill 0 [⟨0, 2⟩, ⟨0, 3⟩] 7, .reext 0 [⟨0, 3⟩, ⟨0, 2⟩] (some 5)] := by
  refine ⟨⟨rfl, ?_⟩, ⟨_, rfl, ?_, rfl, by decide⟩, trivial⟩
  · intro e he; simp at he; rcases he with he | he <;> subst he <;> decide
  · intro e he; simp at he; rcases he with he | he <;> subst he <;> decide

/-- the model on a concrete reextent: 2×3 → 3×2 keeps the common 2×2 block and fills the rest -/
example :
    let cfg : Cfg Int := ⟨true, 0⟩
    let r0 := fillCtor ({} : Heap Int) [⟨0, 2⟩, ⟨0, 3⟩] 7
    let h1 := writeAt r0.1 r0.2 [1, 1] 9
    let r := reextent cfg h1 r0.2 [⟨0, 3⟩, ⟨0, 2⟩] (some 5)
    elems r.1 r.2 = [some (some 7), some (some 7), some (some 7), some (some 9), some (some 5), some (some 5)] := by
  decide +kernel

end C06
end Multi
