/-
  C06 — reextent keeps the common part; clear, reshape and assign do what they say.
  (first version: the statements that need no heap reasoning; the refinement theorems follow)
-/
import MultiModel.Owning
import MultiProofs.C01

namespace Multi
namespace C06
open Own

/-- `reextent` to the current extensions keeps block and layout -/
theorem reextent_noop {α : Type} (cfg : Cfg α) (h : Heap α) (a : Arr) (x : List Ext) (fill : Option α)
    (hx : Exts.eqv x a.exts = true) : reextent cfg h a x fill = (h, a) := by
  unfold reextent; simp [hx]

end C06
end Multi
