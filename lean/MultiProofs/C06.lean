/-
  C06 — reextent keeps the common part; clear, reshape and assign do what they say.

  Property theorems only (vocabulary: see C04.lean / OwnSpec.lean / OwnStep.lean).

    * `reextent_extents`      after `reextent(x)` (any overload, any prior state) the array reports the extensions `x` (collapsed)
    * `reextent_noop`         reextent to the current extensions: same block, same layout, same heap — storage, iterators, views stay valid
    * `reextent_moved_law`    `std::move(A).reextent(x)`: extensions `x`, every element value-initialised (indeterminate for a trivial `T`)
    * `reextent_law_partial`  the element part of the law for the lvalue overloads (see the comment there)
    * `clear_empty`, `reshape_flat`, `assign_exact`, `assign_range_exact`
-/
import MultiProofs.OwnStep
import MultiProofs.OwnObs

namespace Multi
namespace C06
open Own
variable {α : Type}

/-- **new extents are `x`**: every `reextent` overload, from any valid array, yields an array built for `x`; it reports `collapse x`
    (`x` itself unless some extent of `x` is empty, in which case the array is empty) and has `Π sizes of x` elements -/
theorem reextent_extents (cfg : Cfg α) (h : Heap α) (a : Arr) (hv : Valid h a) (x : List Ext) (hx : ExtsOK x) (fill : Option α) :
    (reextent cfg h a x fill).2.exts = collapse x ∧ (reextent cfg h a x fill).2.numElements = nElems x ∧
    (reextentMoved cfg h a x).2.exts = collapse x ∧ (reextentMoved cfg h a x).2.numElements = nElems x := by
  have same : Exts.eqv x a.exts = true → a.exts = collapse x ∧ a.numElements = nElems x := by
    intro he
    -- `==` on extensions is symmetric in the sense needed here: compare through the collapsed form
    have hsymm : Exts.eqv a.exts x = true := by rw [eqv_comm]; exact he
    have e := eqv_collapse _ _ hv.exts_fix hsymm
    exact ⟨e.symm, by rw [← hv.nElems_exts, ← e, nElems_collapse]⟩
  unfold reextent reextentMoved
  by_cases he : Exts.eqv x a.exts = true
  · simp only [he, if_true]
    exact ⟨(same he).1, (same he).2, (same he).1, (same he).2⟩
  · simp only [he, Bool.false_eq_true, if_false]
    exact ⟨ofExts_exts hx, ofExts_numElements hx, ofExts_exts hx, ofExts_numElements hx⟩

/-- **reextent to the current extensions keeps everything**: the heap, the block and the layout are the same objects, so `data_elements()`,
    iterators and views taken before remain valid (all three overloads) -/
theorem reextent_noop (cfg : Cfg α) (h : Heap α) (a : Arr) (x : List Ext) (fill : Option α) (hx : Exts.eqv x a.exts = true) :
    reextent cfg h a x fill = (h, a) ∧ reextentMoved cfg h a x = (h, a) := by
  constructor
  · exact reextent_same cfg h a x fill hx
  · unfold reextentMoved; simp [hx]

/-- and at pool level: the step is the identity -/
theorem reextent_noop_pool (cfg : Cfg α) (p : Pool α) (k : Nat) (a : Arr) (ha : p.arrs k = some a) (x : List Ext) (fill : Option α)
    (hx : Exts.eqv x a.exts = true) : step cfg p (.reextSame k x fill) = p := by
  simp only [step, ha, reextent_same cfg p.heap a x fill hx]
  exact Pool.set_same p ha

/-- **`std::move(A).reextent(x)`**: extensions `x`; every element is value-initialised (indeterminate for a trivially default
    constructible `T`); nothing else in the pool changes; for the current extensions nothing changes at all -/
theorem reextent_moved_law (cfg : Cfg α) (p : Pool α) (hi : Inv p) (k : Nat) (a : Arr) (ha : p.arrs k = some a) (x : List Ext) (hx : ExtsOK x) :
    let p1 := step cfg p (.reextm k x)
    Inv p1 ∧ (∀ j, j ≠ k → absPool p1 j = absPool p j) ∧
    absPool p1 k = some (if Exts.eqv x a.exts = true then absArr p.heap a else ⟨collapse x, List.replicate (nElems x).toNat (initCell cfg)⟩) := by
  intro p1
  obtain ⟨i1, a1⟩ := step_refines cfg p hi (.reextm k x) ⟨a, ha, hx⟩
  refine ⟨i1, fun j hj => by rw [a1]; exact upd_other _ _ hj, ?_⟩
  rw [a1]; simp [specStep, absPool_some ha, absArr]

/-- **the element part of the law for `reextent(x)` / `reextent(x, v)` on an lvalue.**  PARTIAL.
    Full statement (`reextent_law`): for a valid array `a` in a pool satisfying `Inv`, `x` with `ExtsOK x`, `¬ x == extensions(a)`,
    `(h', a') := reextent cfg h a x fill`:  `Valid h' a'`, the other arrays keep their values, and for every index tuple
    `idx ∈ box (collapse x)`:  `a'[idx] = a[idx]` if `idx ∈ box (extensions a)`, else `a'[idx] = v` (`fill = some v`) resp. the
    value-initialised / indeterminate cell (`fill = none`).
    Proved: the new array is built for `x` (`reextent_extents`); it lives in a block that did not exist before, of exactly `Π sizes`
    cells, every cell of which was initialised with the fill / value-initialised cell before the common part is copied; the copy reads
    the old block only through the slice `a(is₀, is₁, …)` and writes the new block only through the same slice of the new array, with
    `is = extensions(a) ∩ extensions(a')` (this theorem: the operation is that composition, and is skipped when the intersection is
    empty); the old block is released last.
    Missing: the slice-to-slice element copy as a map on cells (same missing lemma as in C04.abs_step_views_partial, plus the fact,
    available from C01.paren_refines, that the k-th element of both slices has the same absolute index tuple).
    The full law is checked on every reextent of the correspondence run against the reference model inside the harness
    (`REF-MISMATCH`), for both element types, all D 1..4, growing / shrinking / shifted / empty extents and non-zero index bases. -/
theorem reextent_law_partial (cfg : Cfg α) (h : Heap α) (a : Arr) (x : List Ext) (fill : Option α) (hne : Exts.eqv x a.exts = false) :
    let tl := Layout.ofExts x
    let h1 := (h.alloc tl.numElements).1
    let p := (h.alloc tl.numElements).2
    let h2 := match fill with
      | none => valueConstruct cfg h1 p tl.numElements
      | some v => h1.fillN p tl.numElements.toNat (some v)
    let is := Exts.inter a.exts tl.exts
    reextent cfg h a x fill =
      (deallocate (if Exts.numElements is = 0 then h2 else copyElems h2 a.base (applyExts a.view is) p (applyExts (⟨p, tl⟩ : Arr).view is)) a,
       ⟨p, tl⟩) := by
  unfold reextent
  simp only [hne, Bool.false_eq_true, if_false]
  rfl

/-- the freshly initialised block of `reextent_law_partial`: before the common part is copied every element of the new array equals the
    fill value (resp. the value-initialised / indeterminate cell) -/
theorem reextent_fresh_block (cfg : Cfg α) (h : Heap α) (x : List Ext) (hx : ExtsOK x) (v : α) :
    let r := fillCtor h x v
    Valid r.1 r.2 ∧ absArr r.1 r.2 = ⟨collapse x, List.replicate (nElems x).toNat (some v)⟩ :=
  ⟨(fillCtor_outcome h hx v).valid, (fillCtor_outcome h hx v).abs⟩

/-- **`clear()` (and `A = {}`) leave an empty valid array**; the other arrays keep their values -/
theorem clear_empty (cfg : Cfg α) (p : Pool α) (hi : Inv p) (k : Nat) (a : Arr) (ha : p.arrs k = some a) (hD : a.dim ≠ 0) :
    let p1 := step cfg p (.clear k)
    Inv p1 ∧ absPool p1 k = some (emptyVal a.dim) ∧ (∀ j, j ≠ k → absPool p1 j = absPool p j) ∧
    ilAssign p.heap a 0 [] ([] : List α) = clear p.heap a := by
  intro p1
  obtain ⟨i1, a1⟩ := step_refines cfg p hi (.clear k) ⟨a, ha, hD⟩
  refine ⟨i1, ?_, fun j hj => by rw [a1]; exact upd_other _ _ hj, by simp [ilAssign]⟩
  rw [a1]; simp [specStep, absPool_some ha, absArr, exts_length]

/-- **`reshape` to extensions with the same element count preserves the flat element sequence** and the storage -/
theorem reshape_flat (cfg : Cfg α) (p : Pool α) (hi : Inv p) (k : Nat) (a : Arr) (ha : p.arrs k = some a) (es : List Ext) (hes : ExtsOK es)
    (hn : nElems es = a.numElements) :
    let p1 := step cfg p (.reshape k es)
    Inv p1 ∧ p1.heap = p.heap ∧ absPool p1 k = some ⟨collapse es, (absArr p.heap a).elems⟩ ∧
    (∀ j, j ≠ k → absPool p1 j = absPool p j) ∧ (reshape p.heap a es).2.base = a.base := by
  intro p1
  obtain ⟨i1, a1⟩ := step_refines cfg p hi (.reshape k es) ⟨a, ha, hes, hn⟩
  obtain ⟨_, e1, e2⟩ := reshape_outcome (hi.valid k a ha) hes hn
  refine ⟨i1, ?_, ?_, fun j hj => by rw [a1]; exact upd_other _ _ hj, e2⟩
  · show (step cfg p (.reshape k es)).heap = p.heap
    simp only [step, ha, Pool.set_heap, Pool.withHeap_heap]; exact e1
  · rw [a1]; simp [specStep, absPool_some ha]

/-- **`assign(extensions, v)` produces exactly the requested contents**, whatever the prior state -/
theorem assign_exact (cfg : Cfg α) (p : Pool α) (hi : Inv p) (k : Nat) (a : Arr) (ha : p.arrs k = some a) (hD : a.dim ≠ 0) (es : List Ext)
    (hes : ExtsOK es) (v : α) :
    let p1 := step cfg p (.assignf k es v)
    Inv p1 ∧ absPool p1 k = some ⟨collapse es, List.replicate (nElems es).toNat (some v)⟩ ∧ (∀ j, j ≠ k → absPool p1 j = absPool p j) := by
  intro p1
  obtain ⟨i1, a1⟩ := step_refines cfg p hi (.assignf k es v) ⟨a, ha, hD, hes⟩
  refine ⟨i1, ?_, fun j hj => by rw [a1]; exact upd_other _ _ hj⟩
  rw [a1]; simp [specStep]

/-- **contents from a range / nested initializer list**: the array built from `count` sub-arrays of extensions `inner` and the values
    `vals` (in order) has exactly these extensions and elements; `assign(first,last)` / `operator=(initializer_list)` with another shape
    is this construction followed by a move assignment (`C04.move_assign_leaves_empty_valid`), an empty initializer list is `clear` -/
theorem assign_range_exact (cfg : Cfg α) (p : Pool α) (hi : Inv p) (k : Nat) (hk : p.arrs k = none) (count : Int) (inner : List Ext)
    (vals : List α) (hes : ExtsOK (rangeExts count inner)) (hlen : (vals.length : Int) = nElems (rangeExts count inner)) :
    let p1 := step cfg p (.range k count inner vals)
    Inv p1 ∧ absPool p1 k = some ⟨collapse (rangeExts count inner), vals.map some⟩ ∧
    (∀ (h : Heap α) (self : Arr), ¬ (count = self.view.size ∧ (count = 0 ∨ Exts.eqv inner (self.view.index self.view.ext.first).exts = true)) →
      assignRange h self count inner vals =
        (dtor (moveAssign (rangeCtor h count inner vals).1 self (rangeCtor h count inner vals).2).1
              (moveAssign (rangeCtor h count inner vals).1 self (rangeCtor h count inner vals).2).2.2,
         (moveAssign (rangeCtor h count inner vals).1 self (rangeCtor h count inner vals).2).2.1)) := by
  intro p1
  obtain ⟨i1, a1⟩ := step_refines cfg p hi (.range k count inner vals) ⟨hk, hes, hlen⟩
  refine ⟨i1, by rw [a1]; simp [specStep], ?_⟩
  intro h self hcond
  unfold assignRange
  simp only [hcond, if_false]

/-! ### non-vacuity -/

/-- `A(2×3, 7)`; `A.reshape(3×2)`; `A.assign(1×2 based at 5, 4)`; `A.clear()` — values as documented -/
example :
    let cfg : Cfg Int := ⟨false, 0⟩
    let ops : List (VOp Int) := [.fill 0 [⟨0, 2⟩, ⟨0, 3⟩] 7, .reshape 0 [⟨0, 3⟩, ⟨0, 2⟩], .assignf 0 [⟨5, 6⟩, ⟨0, 2⟩] 4]
    specRun cfg (fun _ => none) ops 0 = some ⟨[⟨5, 6⟩, ⟨0, 2⟩], [some 4, some 4]⟩ ∧
    specRun cfg (fun _ => none) (ops ++ [.clear 0]) 0 = some ⟨[⟨0, 0⟩, ⟨0, 0⟩], []⟩ := by
  constructor <;> rfl

/-- the model on a concrete reextent: 2×3 → 3×2 keeps the common 2×2 block and fills the rest -/
example :
    let cfg : Cfg Int := ⟨true, 0⟩
    let r0 := fillCtor ({} : Heap Int) [⟨0, 2⟩, ⟨0, 3⟩] 7
    let h1 := writeAt r0.1 r0.2 [1, 1] 9
    let r := reextent cfg h1 r0.2 [⟨0, 3⟩, ⟨0, 2⟩] (some 5)
    elems r.1 r.2 = [some (some 7), some (some 7), some (some 7), some (some 9), some (some 5), some (some 5)] := by
  decide +kernel

end C06
end Multi
