/-
  MultiProofs.BlasTrsm — legality of an xTRSM call as a conjunction (dtrsm.f parameter checks).
-/
import MultiModel.Blas
import MultiProofs.BlasGemm

namespace Multi.Blas
variable {R : Type}

def TrsmCall.Legal (g : TrsmCall R) : Prop :=
  (g.side = 'L' ∨ g.side = 'R') ∧ (g.uplo = 'U' ∨ g.uplo = 'L') ∧ isTrans g.t = true ∧ (g.diag = 'U' ∨ g.diag = 'N') ∧
  0 ≤ g.m ∧ 0 ≤ g.n ∧ 1 ≤ g.lda ∧ (if g.side = 'L' then g.m else g.n) ≤ g.lda ∧ 1 ≤ g.ldb ∧ g.m ≤ g.ldb

theorem trsm_illegal_none_iff (g : TrsmCall R) : g.illegal = none ↔ g.Legal := by
  unfold TrsmCall.illegal TrsmCall.Legal
  by_cases h1 : g.side = 'L' ∨ g.side = 'R'
  · have e1 : (!(decide (g.side = 'L') || decide (g.side = 'R'))) = false := by rcases h1 with h | h <;> simp [h]
    by_cases h2 : g.uplo = 'U' ∨ g.uplo = 'L'
    · have e2 : (!(decide (g.uplo = 'U') || decide (g.uplo = 'L'))) = false := by rcases h2 with h | h <;> simp [h]
      by_cases h3 : isTrans g.t = true
      · by_cases h4 : g.diag = 'U' ∨ g.diag = 'N'
        · have e4 : (!(decide (g.diag = 'U') || decide (g.diag = 'N'))) = false := by rcases h4 with h | h <;> simp [h]
          simp only [e1, e2, e4, h3, Bool.not_true, Bool.false_eq_true, if_false]
          by_cases h5 : g.m < 0
          · simp only [h5, if_true, reduceCtorEq, false_iff]; omega
          by_cases h6 : g.n < 0
          · simp only [h5, h6, if_true, if_false, reduceCtorEq, false_iff]; omega
          simp only [h5, h6, if_false]
          by_cases h9 : g.lda < maxI 1 (if g.side = 'L' then g.m else g.n)
          · simp only [h9, if_true, reduceCtorEq, false_iff]
            have := maxI_lt.mp h9
            omega
          by_cases h11 : g.ldb < maxI 1 g.m
          · simp only [h9, h11, if_true, if_false, reduceCtorEq, false_iff]
            have := maxI_lt.mp h11
            omega
          simp only [h9, h11, if_false, true_iff]
          have a9 := maxI_le.mp h9
          have a11 := maxI_le.mp h11
          exact ⟨h1, h2, trivial, h4, by omega, by omega, a9.1, a9.2, a11.1, a11.2⟩
        · have e4 : (!(decide (g.diag = 'U') || decide (g.diag = 'N'))) = true := by simp_all
          simp only [e1, e2, e4, h3, Bool.not_true, Bool.false_eq_true, if_false, if_true, reduceCtorEq, false_iff]
          exact fun h => h4 h.2.2.2.1
      · simp only [e1, e2, Bool.false_eq_true, if_false]
        have : (!isTrans g.t) = true := by simp_all
        simp only [this, if_true, reduceCtorEq, false_iff]
        exact fun h => h3 h.2.2.1
    · have e2 : (!(decide (g.uplo = 'U') || decide (g.uplo = 'L'))) = true := by simp_all
      simp only [e1, e2, Bool.false_eq_true, if_false, if_true, reduceCtorEq, false_iff]
      exact fun h => h2 h.2.1
  · have e1 : (!(decide (g.side = 'L') || decide (g.side = 'R'))) = true := by simp_all
    simp only [e1, if_true, reduceCtorEq, false_iff]
    exact fun h => h1 h.1

end Multi.Blas
