"""Shared configuration of the value-semantics correspondence run (C04, C06): harness/value.cpp + driver mmdrv_value.

* compile probes: two groups of operations do not compile against some trees (findings assign-extensions-compile,
  zero-dim-debug-asserts); the probes decide which -DVALUE_HAVE_* macros the harness is built with and are reported by
  the hook `compile_probes`;
* `nontrivial`, `finding_key`, `reproduce_finding`, hook `op_histogram`.
"""
import os, re, json, hashlib, subprocess, glob

HERE = os.path.dirname(os.path.dirname(os.path.abspath(__file__)))
REPO = os.environ.get("VERIF_REPO", "/repo")

PROBES = {
    # macro: (what, source of main())
    "VALUE_HAVE_ASSIGN_FILL": ("array::assign(extensions, value) compiles",
                               "multi::array<int, 2> a({2, 3}, 1); a.assign(multi::extensions_t<2>{3, 2}, 5); return a.num_elements() == 6 ? 0 : 1;"),
    "VALUE_HAVE_ZERO_D": ("array<T, 0> default / copy / from-extensions constructors compile with assertions enabled",
                          "multi::array<int, 0> a; multi::array<int, 0> b(7); multi::array<int, 0> c(b); multi::array<int, 0> d(multi::extensions_t<0>{}); return static_cast<int>(c) == 7 ? 0 : 1;"),
}
PROBE_KEYS = {"VALUE_HAVE_ASSIGN_FILL": "assign-extensions-compile", "VALUE_HAVE_ZERO_D": "zero-dim-debug-asserts"}


def probe_source(macro):
    return "#include <boost/multi/array.hpp>\nnamespace multi = boost::multi;\nint main() { %s }\n" % PROBES[macro][1]


def _tree_digest():
    h = hashlib.sha1()
    for f in sorted(glob.glob(os.path.join(REPO, "include/boost/multi/*.hpp")) + glob.glob(os.path.join(REPO, "include/boost/multi/detail/*.hpp"))):
        h.update(open(f, "rb").read())
    return h.hexdigest()


def probe_results():
    """{macro: True/False}: does the probe compile (assertions enabled) and run with exit status 0?  Cached per header digest."""
    cache_dir = os.path.join(HERE, ".build", "value_probes")
    os.makedirs(cache_dir, exist_ok=True)
    digest = _tree_digest()
    cache = os.path.join(cache_dir, digest + ".json")
    if os.path.exists(cache):
        try:
            return json.load(open(cache))
        except Exception:
            pass
    res = {}
    for macro in PROBES:
        src = os.path.join(cache_dir, macro + ".cpp")
        exe = os.path.join(cache_dir, macro + ".x")
        open(src, "w").write(probe_source(macro))
        p = subprocess.run(["g++", "-std=c++17", "-w", "-O0", f"-I{REPO}/include", src, "-o", exe], stdout=subprocess.PIPE, stderr=subprocess.STDOUT, text=True)
        ok = p.returncode == 0
        if ok:
            ok = subprocess.run([exe]).returncode == 0
        res[macro] = ok
    json.dump(res, open(cache, "w"))
    return res


def value_harness(modes, quick, thorough, name="value", extra_flags=None, opt=None):
    flags = (opt or ["-O1", "-g"]) + (extra_flags or []) + ["-D" + m for m, ok in sorted(probe_results().items()) if ok]
    return {"name": name, "src": "value.cpp", "driver": "mmdrv_value", "flags": flags, "modes": modes, "programs": {"quick": quick, "thorough": thorough}}


VALUE_RULE = ("programs = histories of 1..40 operations (construct / copy / move / assign from arrays, views, other element type, nested lists / "
              "swap / decay / element write / clear / reshape / assign / reextent / destroy) over a pool of 8 arrays of D 0..4 with extents 0..4 per "
              "dimension (index bases -2..3 in half of the programs), drawn from the pool's current state; after every operation all live arrays "
              "(extents, all elements, storage token) are observed; distinct = different program text; non-trivial = at least two operations and "
              "some observed array with >= 2 elements; the +perm modes add programs of one array (D 2..4, extents 2..3, all-distinct values), a view of it with permuted dimensions (chain of rotated / unrotated / transposed) and one consumer of the view (construction, decay, the two view assignments over an empty / equal-extents / other-extents target)")


def nontrivial(prog_lines, answer_lines):
    nops = sum(1 for l in prog_lines if l.startswith("o "))
    big = False
    for l in answer_lines:
        if l.startswith("arr "):
            f = l.split("|")
            if len(f) >= 3 and f[2].strip().lstrip("-").isdigit() and int(f[2]) >= 2:
                big = True
                break
    return nops >= 2 and big


def _nonzero_base(program):
    """does any extents argument of the program have a non-zero first index?"""
    for l in program:
        w = l.split()
        if len(w) > 3 and w[0] == "o" and w[1] in ("exts", "fill", "reshape", "reext", "reextv", "reextm", "assignf"):
            try:
                D = int(w[3])
                firsts = [int(w[4 + 2 * k]) for k in range(D)]
            except (ValueError, IndexError):
                continue
            if any(f != 0 for f in firsts):
                return True
    return False


def finding_key(pid, program, impl_lines, model_lines):
    """class of a disagreement.  The classes of the recorded findings are recognised from what the MODEL says about the operation the
    implementation died in (op name and `note` line) — everything else gets the generic key (ops used + first differing answer)."""
    ops = [l.split()[1] for l in program if l.startswith("o ") and len(l.split()) > 1]
    last = ops[-1] if ops else "?"
    crashed = bool(impl_lines) and impl_lines[-1].startswith("CRASH")
    if crashed:
        # model lines from the position of the CRASH line on belong to the operation that died
        # (its `note` line is printed before the operation by both sides, or after it by the model only)
        tail = impl_lines[-2:-1] + model_lines[len(impl_lines) - 1:][:2]
        note = next((l for l in tail if l.startswith("note ")), "")
        m = dict(kv.split("=") for kv in note.split()[2:] if "=" in kv) if note else {}
        D = int(m.get("D", "0") or 0)
        if last in ("ilassign", "assignr") and D >= 2 and m.get("outer") == "eq" and m.get("inner") == "ne":
            return "value:assign-inner-extents"
        if last == "rctor" and D >= 2 and m.get("count") == "0":
            return "value:empty-range"
        if last == "assignr" and D >= 2 and m.get("count") == "0" and m.get("outer") == "ne":
            return "value:empty-range"
        if last in ("reext", "reextv") and _nonzero_base(program):
            return "value:reextent-index-bases"
        if last == "rassign" and m.get("n") == "0" and m.get("vn") == "0" and m.get("eqv") == "0":
            return "value:assign-empty-view"
    kind = "?"
    for a, b in zip(impl_lines, model_lines):
        if a != b:
            kind = (a.split() or ["?"])[0]
            break
    else:
        if len(impl_lines) != len(model_lines):
            longer = impl_lines if len(impl_lines) > len(model_lines) else model_lines
            kind = (longer[min(len(impl_lines), len(model_lines))].split() or ["?"])[0]
    return f"{pid}:{'+'.join(sorted(set(ops)))}:{kind}"


def reproduce_finding(f, ctx):
    """witness kinds: program (see props_common), cpp (runs and fails), compile (does NOT compile, or fails when run)"""
    import props_common
    w = f.get("witness", {})
    if w.get("kind") == "compile":
        os.makedirs(ctx["build"], exist_ok=True)
        src = os.path.join(ctx["build"], "finding_%s.cpp" % hashlib.sha1(f.get("key", "").encode()).hexdigest()[:10])
        open(src, "w").write(w["source"])
        exe = src[:-4] + ".x"
        rc, out = ctx["sh"](["g++", "-std=c++17", "-w"] + w.get("flags", ["-O0"]) + [f"-I{ctx['repo']}/include", src, "-o", exe], timeout=600)
        if rc != 0:
            return True
        rc, out = ctx["sh"]([exe], timeout=120)
        return rc != 0
    return props_common.reproduce_finding(f, ctx)


def compile_probes(ctx, macros):
    """hook: every operation of the property must at least compile against the tree (assertions enabled)"""
    res = {m: ok for m, ok in probe_results().items() if m in macros}
    violations = []
    for macro, ok in sorted(res.items()):
        if not ok:
            violations.append({"key": "value:" + PROBE_KEYS[macro], "what": PROBES[macro][0] + ": NO", "failing_input": probe_source(macro),
                               "detail": "g++ -std=c++17 -w -O0 -I<repo>/include probe.cpp  (no -DNDEBUG) fails to compile or the program fails"})
    return {"violations": violations, "stats": {m: ("compiles" if ok else "does not compile") for m, ok in res.items()}}


def op_histogram(ctx):
    """hook: histogram of the operations of the generated programs (the orchestrator's own histogram only knows `v`/`x` lines)"""
    hist = {}
    branch = {}
    for f in glob.glob(os.path.join(ctx["build"], "prog.value*.txt")):
        for l in open(f):
            w = l.split()
            if len(w) > 1 and w[0] == "o":
                hist[w[1]] = hist.get(w[1], 0) + 1
    for f in glob.glob(os.path.join(ctx["build"], "impl.value*.out")):
        for l in open(f):
            if l.startswith("note ") or (l.startswith("ok ") and "=" in l):
                k = re.sub(r"count=-?\d+", "count=n", l.strip())
                branch[k] = branch.get(k, 0) + 1
    return {"violations": [], "stats": {"operations": dict(sorted(hist.items(), key=lambda kv: -kv[1])), "facts": dict(sorted(branch.items(), key=lambda kv: -kv[1])[:40])}}
