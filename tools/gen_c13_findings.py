#!/usr/bin/env python3
"""Maintenance tool (NOT run by ./check): rebuilds findings/C13.json from the failing classes of harness runs.

  python3 tools/gen_c13_findings.py [seed ...]     default seeds 1 2 3 4 5 6

For every seed it runs both build flavours of harness/blas.cpp (binaries from .build/C13, built by a previous ./check C13)
on 16 workers, classifies every `num FAIL` case with `mmdrv_blas --key` exactly as the hook of tools/props/C13.py does, and
writes one OPEN finding per class (function, canonical branch ordinal, size class) with a witness program.  Every entry is
a case where the REAL library (headers of $VERIF_REPO, OpenBLAS) gives a result that differs from the naive reference.
"""
import os, sys, json, subprocess, concurrent.futures as cf
HERE = os.path.dirname(os.path.dirname(os.path.abspath(__file__)))
sys.path.insert(0, os.path.join(HERE, "tools"))
sys.path.insert(0, os.path.join(HERE, "tools", "props"))
import C13  # noqa: E402

BUILD = os.path.join(HERE, ".build", "C13")
DRV = os.path.join(HERE, "lean", ".lake", "build", "bin", "mmdrv_blas")
seeds = [int(x) for x in sys.argv[1:]] or [1, 2, 3, 4, 5, 6]
branches = {(b["function"], b["ordinal"]): b for b in json.load(open(os.path.join(HERE, "lean/MultiModel/Gen/BlasDispatch.branches.json")))["branches"]}


def run(name, seed, w, n):
    exe = os.path.join(BUILD, name)
    env = dict(os.environ, OPENBLAS_NUM_THREADS="1")
    subprocess.run([exe, str(seed * 1000 + w), str(n), "mix", os.path.join(BUILD, f"prog.{name}.mix.{w}.txt"), os.path.join(BUILD, f"impl.{name}.mix.{w}.out")], env=env, check=False)


allc = {}
for seed in seeds:
    with cf.ThreadPoolExecutor(max_workers=16) as ex:
        for name in ("blas", "blas_nd"):
            for w in range(16):
                ex.submit(run, name, seed, w, 12000 if seed == seeds[0] else 16000)
    classes, stats = C13.collect_failures(BUILD, DRV)
    print("seed", seed, stats["failing"], "failing cases,", len(classes), "classes,", len([k for k in classes if k not in allc]), "new")
    for k, c in classes.items():
        if k not in allc:
            allc[k] = c
        else:
            allc[k]["count"] += c["count"]
            for kk, v in c["kinds"].items():
                allc[k]["kinds"][kk] = allc[k]["kinds"].get(kk, 0) + v
            for kk, v in c["layouts"].items():
                allc[k]["layouts"][kk] = allc[k]["layouts"].get(kk, 0) + v

findings = []
for k in sorted(allc):
    c = allc[k]
    parts = k.split(":")
    desc = ""
    if len(parts) >= 4 and parts[2].startswith("b"):
        b = branches.get((parts[1], int(parts[2][1:])))
        if b:
            desc = f" [{b['file']}:{b['line']}, arm taken when {' ; '.join(b['taken']) or '(else)'}]"
    kinds = ", ".join(f"{a} x{n}" for a, n in sorted(c["kinds"].items()))
    lays = ", ".join(sorted(c["layouts"]))
    findings.append({
        "property": "C13", "key": k, "status": "open",
        "what": f"{k}{desc}: result differs from the mathematical definition ({kinds}; operand layouts {lays}; build {'NDEBUG' if c['harness_name'].endswith('_nd') else 'assertions on'})",
        "witness": {"kind": "program", "harness": "blas.cpp", "harness_name": c["harness_name"], "mode": "mix", "program": [x for x in c["program"] if x], "observed": [x for x in c["answers"] if x][-6:]},
    })
# entries already recorded as fixed are history: they are kept (the ordinals in their keys are those of the table before the fix)
FP = os.path.join(HERE, "findings", "C13.json")
fixed = [f for f in json.load(open(FP)).get("findings", []) if f.get("status") == "fixed"] if os.path.exists(FP) else []
fixed_keys = {f["key"] for f in fixed}
json.dump({"findings": fixed + [f for f in findings if f["key"] not in fixed_keys]}, open(FP, "w"), indent=1, ensure_ascii=False)
print(len(findings), "open findings written,", len(fixed), "fixed entries kept")
