"""Shared configuration of the resource-discipline checks C08 / C09 / C10 (harness/ledger.cpp, driver mmdrv_ledger).

The correspondence run compares the real code with the Lean model of the code AS IT IS (model = code, so a known defect does not
show up as a disagreement).  Whether the *property* holds is decided by an oracle that is independent of the model: the harness
prints, after every operation, its own verdict on the pool (`inv ok | BAD:<defects>`), the outcome of the operation
(`ok | threw:<step> | TERMINATED:<step> | CORRUPT`) and `end clean | leak …`; `oracle()` below scans those lines, classifies every
defect by (operation class, fault step class) and reports each class once, with a replayable program.
"""
import json, os, subprocess, hashlib

# ------------------------------------------------------------------------------------------------------------------------------
# Which repairs are applied to /repo.  The model follows the code as it stands for every defect NOT listed here.
# Tokens: F6, F7, F8 = fixes/F6-F8.patch; "F9" = fixes/F9d.patch; "F9a" = fixes/F9.patch (move between unequal allocators);
# "F9c" = fixes/F9c.patch (POCCA copy assignment between unequal allocators).  Any subset works; keep it in step with /repo and
# with the status of the entries of findings/C09.json / findings/C10.json.
FIXED = ["F6", "F7", "F8", "F9", "F9a", "F9c"]   # d4fce0c, bac08ce, a79ea45, 788ba4a (F9d = "F9"), fixes/F9.patch = "F9a", fixes/F9c.patch = "F9c"
# ------------------------------------------------------------------------------------------------------------------------------

SAN_FLAGS = ["-O0", "-fsanitize=address,undefined", "-fno-sanitize-recover=all"]


def ledger_harness(name, modes, quick, thorough, modes_thorough):
    return {"name": name, "src": "ledger.cpp", "driver": "mmdrv_ledger", "flags": SAN_FLAGS, "modes": modes, "modes_thorough": modes_thorough,
            "programs": {"quick": quick, "thorough": thorough},
            "env": {"VERIF_LEDGER_FIXED": ",".join(FIXED), "ASAN_OPTIONS": "detect_leaks=0", "UBSAN_OPTIONS": "print_stacktrace=0"}}


TRUSTED_LEDGER = [
    "the C++ abstract machine as modelled: an exception propagates to the nearest handler; the destructor of an object whose constructor body throws does not run "
    "(bases and members are destroyed); an exception leaving a noexcept function calls std::terminate",
    "std::allocator_traits: construct/destroy/allocate/deallocate forward to the allocator; propagate_on_container_* / is_always_equal / "
    "select_on_container_copy_construction are read where the model reads them (validated over all 16 trait configurations and std::pmr)",
    "the instrumented element type and allocator of harness/ledger.cpp (registry of live addresses, block ledger, k-th fallible step throws) observe every "
    "construction, assignment, destruction, allocation and deallocation the library performs on the arrays of the pool",
]

RULE = ("programs = one allocator/element configuration (Elem with observable special members: D=2 x 16 trait configurations, D=1,3 x {none, all} traits, std::pmr with "
        "3 resources at D=1,2; int: D=1..3; Semi = logged construction + trivial destructor: D=1..3; Forced = force_element_trivial_destruction: D=2; array<T,0>: Elem with non-propagating allocators and pmr, int, Semi - 6 operation forms) + a history of 1..8 (thorough: 1..20) operations over a pool of 4 arrays drawn from 24 operation forms "
        "(every constructor form, copy/move construction and assignment, swap, reextent x3, reshape, assign, clear, view/range assignment, destruction), extents 0..5 per dimension "
        "with 0 and 1 weighted, allocator instances 0..3, then destruction of the whole pool; fault mode: the same history once per injection point k "
        "(k-th allocation / element construction / element assignment throws), each run in a forked ASan+UBSan child; distinct = different program text; "
        "non-trivial = at least two executed operations and at least one block of >= 2 elements")

# ------------------------------------------------------------------------------------------------------------------------------ oracle
# Known classes of defects: (operation tag, fault step) -> finding key.  Anything not listed keeps its own precise key
# "<pid>:<tag>:<step>" and is a VIOLATION.
_CTOR_FORMS = ["ctor_ext", "ctor_fill", "ctor_copy", "ctor_copy_a", "ctor_view", "ctor_range", "sa_move",
               "assign_view/diff", "assign_viewl/diff", "assign_range/diff"]
GROUPS = {
    "C09:F6": {(t, "c") for t in _CTOR_FORMS},
    "C09:F7": {(t, s) for t in ("assign_copy/diff", "assign_fill/diff", "reextent_rv/diff") for s in ("a", "c")},
    "C09:F8": {(t, s) for t in ("reextent/diff", "reextent_fill/diff") for s in ("c", "s")},
    "C09:T1": {("sa_move", "T:a"), ("sa_move", "T:c")},
    "C10:F9": {("assign_move", "-"), ("ctor_move_a", "-")},
    "C10:F9c": {("assign_copy/same", "-")},
    "C10:F9d": {("assign_view/diff", "-"), ("assign_viewl/diff", "-"), ("assign_range/diff", "-")},
}
FIX_OF_GROUP = {"C09:F6": "F6", "C09:F7": "F7", "C09:F8": "F8", "C10:F9d": "F9"}

C09_FLAGS = {"invalid", "leak", "shared", "extleak"}
C10_FLAGS = {"wrongalloc", "wrongdealloc"}
NO_ALLOC_TAGS = {"assign_copy/same", "assign_copy/self", "assign_view/same", "assign_viewl/same", "assign_range/same", "view_assign", "swap", "assign_move",
                 "assign_move/self", "ctor_move", "ctor_move_a", "clear", "dtor", "reshape", "reextent/same", "reextent_fill/same", "reextent_rv/same",
                 "assign_fill/same", "ctor_default"}


def group_key(pid, tag, step):
    for g, members in GROUPS.items():
        if g.startswith(pid + ":") and (tag, step) in members:
            return g
    return f"{pid}:{tag}:{step}"


def split_programs(lines):
    progs, cur = [], None
    for l in lines:
        if l.startswith("prog "):
            if cur is not None:
                progs.append(cur)
            cur = [l]
        elif cur is not None and l:
            cur.append(l)
    if cur is not None:
        progs.append(cur)
    return progs


def parse_r(line):
    """-> dict(tag, status, flags, F, I, S) for an `r` answer line"""
    w = line.split()
    out = {"tag": w[1] if len(w) > 1 else "?", "status": w[2] if len(w) > 2 else "", "flags": set(), "F": [], "I": [], "S": [], "extra": {}}
    parts = line.split(" | ")
    for p in parts[1:]:
        t = p.split()
        if not t:
            continue
        if t[0] == "F":
            out["F"] = t[1:]
        elif t[0] == "I":
            out["I"] = t[1:]
        elif t[0] == "S":
            out["S"] = p[2:].strip()
        elif t[0] == "inv" and len(t) > 1 and t[1].startswith("BAD:"):
            out["flags"] = set(t[1][4:].split(","))
    head = parts[0].split()
    if "pat" in head:
        out["extra"]["pat"] = int(head[head.index("pat") + 1])
    return out


def parse_slots(S):
    """'[@1 n6 b0] - [@2 n0 b_]' -> list of None | (alloc, n, base)"""
    out, i, toks = [], 0, S.split()
    while i < len(toks):
        if toks[i] == "-":
            out.append(None); i += 1
        else:
            out.append((int(toks[i][2:]), int(toks[i + 1][1:]), toks[i + 2][1:-1])); i += 3
    return out


def socc(cfgw, a):
    pmr = cfgw[8] != "0"
    mode = 2 if pmr else int(cfgw[7])
    return a if mode == 0 else (a - a % 2 if mode == 1 else 0)


def scan_program(pid, prog, answers):
    """independent property oracle on one executed program; returns list of (key, what, line)"""
    out = []
    cfgw = next((l.split() for l in prog if l.startswith("cfg ")), None)
    xs = [l for l in prog if l.startswith("x ")]
    rs = [l for l in answers if l.startswith("r ")]
    pmr = cfgw is not None and cfgw[8] != "0"
    trait = lambda k: (cfgw is not None and not pmr and cfgw[k] != "0")
    fault = None            # (tag, step) of the operation in which the injected fault fired
    prev_slots = [None] * 4
    seen9 = False
    seen10 = False          # a block already sits with a foreign allocator: later flags are consequences of that first defect
    for k, line in enumerate(rs):
        r = parse_r(line)
        x = xs[k].split() if k < len(xs) else []
        if r["tag"] == "skip" or r["tag"] == "bad-op":
            continue
        st = r["status"]
        if st.startswith("threw:"):
            fault = (r["tag"], st[6:])
        # ---- C09: the exception reaches the caller, nothing leaked, nothing destroyed twice, every array valid
        if pid in ("C08", "C09") and not seen9:
            bad = None
            if st.startswith("TERMINATED"):
                bad = ("T:" + st.split(":")[1] if ":" in st else "T", "std::terminate instead of an exception reaching the caller")
                fault = (r["tag"], bad[0])
            elif st == "CORRUPT":
                bad = ("corrupt", "double destroy / double deallocate / use of dead storage")
            elif r["flags"] & C09_FLAGS:
                bad = (",".join(sorted(r["flags"] & C09_FLAGS)), "after the operation: " + ",".join(sorted(r["flags"] & C09_FLAGS)))
            if bad:
                seen9 = True
                if fault is not None:
                    key = group_key("C09", fault[0], fault[1])
                    out.append((key, f"{fault[0]} with a throwing step '{fault[1]}': {bad[1]}", line))
                else:
                    key = f"C08:{r['tag']}:{bad[0]}"
                    out.append((key, f"{r['tag']} without any failure: {bad[1]}", line))
        # ---- C09: operations that need no new storage do not allocate
        needs_storage = False   # a move between unequal, non-propagating allocators cannot adopt the block (as for standard containers)
        try:
            if r["tag"] == "assign_move" and prev_slots[int(x[2])] and prev_slots[int(x[3])]:
                needs_storage = (not trait(4)) and (not trait(6)) and prev_slots[int(x[2])][0] != prev_slots[int(x[3])][0]
            if r["tag"] == "assign_copy/same" and prev_slots[int(x[2])] and prev_slots[int(x[3])]:
                # POCCA replaces the allocator: storage of an unequal allocator cannot be kept
                needs_storage = trait(3) and (not trait(6)) and prev_slots[int(x[2])][0] != prev_slots[int(x[3])][0]
            if r["tag"] == "ctor_move_a" and prev_slots[int(x[3])]:
                needs_storage = (not trait(6)) and int(x[4]) != prev_slots[int(x[3])][0]
        except (ValueError, IndexError):
            pass
        if pid == "C09" and r["tag"] in NO_ALLOC_TAGS and not needs_storage and any(e.startswith("a") for e in r["F"]):
            out.append((f"C09:{r['tag']}:allocates", f"{r['tag']} allocates although it needs no new storage", line))
        # ---- C08: no write for trivially default-constructible types in sizing constructors
        if pid == "C08" and "pat" in r["extra"] and r["S"] and st == "ok":
            slots = parse_slots(r["S"])
            if r["tag"] == "ctor_ext" and len(x) > 2:
                s = slots[int(x[2])]
                if s is not None and r["extra"]["pat"] != s[1]:
                    out.append(("C08:ctor_ext:writes", "sizing constructor writes to elements of a trivially default-constructible type", line))
            if r["tag"] in ("reextent/diff", "reextent_rv/diff") and len(x) > 2:
                s = slots[int(x[2])]; old = prev_slots[int(x[2])]
                if s is not None and old is not None and r["extra"]["pat"] < s[1] - (min(old[1], s[1]) if r["tag"] == "reextent/diff" else 0):
                    out.append((f"C08:{r['tag']}:writes", "reextent without a fill value writes to elements it does not preserve", line))
        # ---- C10: storage stays with its allocator; propagation follows the traits
        if pid == "C10" and r["S"]:
            slots = parse_slots(r["S"])
            if (r["flags"] & C10_FLAGS) and not seen10:
                seen10 = True
                out.append((group_key("C10", r["tag"], "-"), f"{r['tag']}: a block is owned or released by an allocator unequal to the one that produced it ({','.join(sorted(r['flags'] & C10_FLAGS))})", line))
            if st == "ok" and len(x) > 2:
                op = x[1]; i = int(x[2]) if x[2].lstrip("-").isdigit() else -1
                exp = None
                try:
                    if op in ("ctor_default", "ctor_ext", "ctor_fill"):
                        exp = int(x[3])
                    elif op in ("ctor_copy_a", "ctor_view", "ctor_range", "ctor_move_a"):
                        exp = int(x[4])
                    elif op == "ctor_copy" and prev_slots[int(x[3])]:
                        exp = socc(cfgw, prev_slots[int(x[3])][0])
                    elif op == "ctor_move" and prev_slots[int(x[3])]:
                        exp = prev_slots[int(x[3])][0]
                    elif op == "assign_copy" and prev_slots[i] and prev_slots[int(x[3])]:
                        exp = prev_slots[int(x[3])][0] if (trait(3) and i != int(x[3])) else prev_slots[i][0]
                    elif op == "assign_move" and prev_slots[i] and prev_slots[int(x[3])]:
                        exp = prev_slots[int(x[3])][0] if (trait(4) and i != int(x[3])) else prev_slots[i][0]
                    elif op == "swap" and prev_slots[i] and prev_slots[int(x[3])]:
                        exp = prev_slots[int(x[3])][0] if trait(5) else prev_slots[i][0]
                        j = int(x[3])
                        expj = prev_slots[i][0] if trait(5) else prev_slots[j][0]
                        if slots[j] and slots[j][0] != expj:
                            out.append((f"C10:{r['tag']}:propagation", f"{r['tag']}: allocator of the other operand after the operation is {slots[j][0]}, the traits prescribe {expj}", line))
                    elif op in ("reextent", "reextent_fill", "reextent_rv", "reshape", "clear", "assign_fill", "view_assign") and prev_slots[i]:
                        exp = prev_slots[i][0]
                except (ValueError, IndexError):
                    exp = None
                if exp is not None and 0 <= i < len(slots) and slots[i] and slots[i][0] != exp:
                    out.append((f"C10:{r['tag']}:propagation", f"{r['tag']}: allocator after the operation is {slots[i][0]}, the traits / the supplied allocator prescribe {exp}", line))
            prev_slots = slots
        elif r["S"]:
            prev_slots = parse_slots(r["S"])
    if pid in ("C08", "C09") and not seen9:
        e = next((l for l in answers if l.startswith("end")), "")
        if e.startswith("end leak") or e.startswith("end arrays-alive"):
            out.append((f"{pid}:end:leak", "something is outstanding after the last array died: " + e, e))
    return out


def oracle(pid, ctx, modes, stream_prefix="ledger"):
    """scan the impl answer files of this run (written by step 3 of ./check; `modes` = the modes of this tier) with the property oracle"""
    build = ctx["build"]
    by_key = {}
    stats = {"programs_scanned": 0, "fault_runs": 0, "faults_by_step": {}, "ops_by_tag": {}, "outcomes": {}}
    for f in sorted(os.listdir(build)):
        if not (f.startswith("impl." + stream_prefix) and f.endswith(".out")):
            continue
        tagname = f[len("impl."):-len(".out")]
        progf = os.path.join(build, "prog." + tagname + ".txt")
        if not os.path.exists(progf):
            continue
        mode = tagname.split(".")[1]
        if mode not in modes:
            continue   # left over from a run of the other tier
        P = split_programs(open(progf).read().split("\n"))
        A = split_programs(open(os.path.join(build, f)).read().split("\n"))
        for p, a in zip(P, A):
            stats["programs_scanned"] += 1
            if any(l.startswith("fault ") and not l.endswith("none") for l in p):
                stats["fault_runs"] += 1
            for l in a:
                if l.startswith("r "):
                    w = l.split()
                    stats["ops_by_tag"][w[1]] = stats["ops_by_tag"].get(w[1], 0) + 1
                    if len(w) > 2 and (w[2].startswith("threw") or w[2].startswith("TERM") or w[2] == "CORRUPT"):
                        stats["outcomes"][w[2]] = stats["outcomes"].get(w[2], 0) + 1
                        if w[2].startswith("threw:"):
                            stats["faults_by_step"][w[2][6:]] = stats["faults_by_step"].get(w[2][6:], 0) + 1
            for key, what, line in scan_program(pid, p, a):
                e = by_key.setdefault(key, {"key": key, "what": what, "count": 0, "program": [x for x in p if x], "mode": mode, "harness": "ledger.cpp",
                                            "observed": line, "failing_input": True})
                e["count"] += 1
                if len(p) < len(e["program"]):
                    e.update(program=[x for x in p if x], observed=line, mode=mode, what=what)
    stats["violation_classes"] = {k: v["count"] for k, v in by_key.items()}
    stats["ops_by_tag"] = dict(sorted(stats["ops_by_tag"].items(), key=lambda kv: -kv[1]))
    return {"violations": list(by_key.values()), "stats": stats, "obligations": 0, "discharged": 0}


# ------------------------------------------------------------------------------------------------------------------------------ replay
def with_current_fixes(program):
    """the `cfg` line of a stored program names the repairs that were in the tree when it was recorded: use today's"""
    out = []
    for l in program:
        w = l.split()
        if w and w[0] == "cfg" and len(w) >= 9:
            l = " ".join(w[:9] + [",".join(FIXED) if FIXED else "-"])
        out.append(l)
    return out


def run_program(ctx, exe, program, tag="oracle"):
    """execute one program on the real code; returns the answer lines"""
    program = with_current_fixes(program)
    build = ctx["build"]
    os.makedirs(build, exist_ok=True)
    src = os.path.join(build, tag + ".in")
    open(src, "w").write("\n".join(program) + "\n")
    prog, imp = os.path.join(build, tag + ".prog"), os.path.join(build, tag + ".impl")
    env = dict(os.environ, ASAN_OPTIONS="detect_leaks=0")
    subprocess.run([exe, "0", "0", "hist", prog, imp, "--replay", src], env=env, stdout=subprocess.PIPE, stderr=subprocess.STDOUT, timeout=600)
    return [l for l in open(imp).read().split("\n") if l] if os.path.exists(imp) else []


def build_exe(ctx, pid):
    exe = os.path.join(ctx["build"], "ledger_replay")
    os.makedirs(ctx["build"], exist_ok=True)
    cmd = ["g++", "-std=c++17", "-w"] + SAN_FLAGS + [f"-I{ctx['repo']}/include", f"-I{ctx['here']}/harness", os.path.join(ctx["here"], "harness", "ledger.cpp"), "-o", exe]
    p = subprocess.run(cmd, stdout=subprocess.PIPE, stderr=subprocess.STDOUT, text=True, timeout=1800)
    return exe if p.returncode == 0 else None


def reproduce(pid, finding, ctx):
    """does the witness program of an open finding still violate the property oracle with the same key, on the real code?"""
    w = finding.get("witness", {})
    if w.get("kind") != "program":
        return True
    exe = None
    for cand in ("ledger", "ledger_replay"):
        c = os.path.join(ctx["build"], cand)
        if os.path.exists(c):
            exe = c
            break
    if exe is None:
        exe = build_exe(ctx, pid)
    if exe is None:
        return True
    ans = run_program(ctx, exe, w["program"], "finding")
    return any(k == finding["key"] for k, _, _ in scan_program(pid, w["program"], ans))


def replay(pid, payload, ctx):
    """./check CNN --replay FILE for a violation found by the oracle: re-run the program, report whether the oracle still rejects it"""
    exe = build_exe(ctx, pid)
    if exe is None:
        print("harness does not build")
        return 1
    ans = run_program(ctx, exe, payload["program"], "replay")
    subprocess.run(["lake", "build", "mmdrv_ledger"], cwd=os.path.join(ctx["here"], "lean"), stdout=subprocess.PIPE, stderr=subprocess.STDOUT)
    drv = os.path.join(ctx["here"], "lean", ".lake", "build", "bin", "mmdrv_ledger")
    model = subprocess.run([drv], input="\n".join(with_current_fixes(payload["program"])) + "\n", stdout=subprocess.PIPE, text=True).stdout.split("\n") if os.path.exists(drv) else []
    print("program:")
    for l in payload["program"]:
        print("   ", l)
    print("observed (implementation):")
    for l in ans:
        print("   ", l)
    if [l for l in model if l] != ans:
        print("model of the code as it stands prints:")
        for l in model:
            if l:
                print("   ", l)
    hits = [(k, w) for k, w, _ in scan_program(pid, payload["program"], ans) if k == payload.get("key")]
    if hits:
        print(f"property oracle: {hits[0][1]}")
        print(f"VIOLATION property={pid} replay={ctx.get('path', payload.get('key', ''))}")
        return 1
    print("replay: the property oracle accepts this program on the current tree")
    return 0


def nontrivial(prog_lines, answer_lines):
    """at least two executed operations and at least one block of >= 2 elements"""
    executed = sum(1 for l in answer_lines if l.startswith("r ") and not l.startswith("r skip"))
    big = False
    for l in answer_lines:
        if l.startswith("r ") and " | F" in l:
            for t in l.split(" | F")[1].split(" | ")[0].split():
                if t.startswith("a") and ":" in t and int(t.split(":")[1].split("@")[0]) >= 2:
                    big = True
    return executed >= 2 and big


def finding_key(pid, program, impl_lines, model_lines):
    """class of a model/code disagreement: operation tag of the first differing answer line"""
    for a, b in zip(impl_lines, model_lines + ["<none>"] * len(impl_lines)):
        if a != b:
            w = a.split()
            return f"{pid}:diff:{w[1] if len(w) > 1 else w[0] if w else '?'}"
    return f"{pid}:diff:?"
