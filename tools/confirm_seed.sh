#!/bin/sh
# usage: confirm_seed.sh <dir containing wt/ patch.diff demo.cpp> [libs...]   re-runs the 78 tests in the scratch worktree and the demo both ways
d="$1"; shift
export OMPI_ALLOW_RUN_AS_ROOT=1 OMPI_ALLOW_RUN_AS_ROOT_CONFIRM=1
cd "$d" || exit 2
git -C wt diff > patch.check.diff
cmp -s patch.check.diff patch.diff || echo "NOTE: patch.diff differs from the worktree diff (using the worktree diff)" 
cp patch.check.diff patch.diff
cmake -G Ninja -S wt -B wt/_build -DCMAKE_BUILD_TYPE=RelWithDebInfo -DCMAKE_CXX_FLAGS=-Wno-error > confirm_cmake.log 2>&1
cmake --build wt/_build -j8 > confirm_build.log 2>&1 || { echo "BUILD FAILED"; tail -5 confirm_build.log; }
ctest --test-dir wt/_build -j8 --timeout 900 2>&1 | tail -4 > confirm_ctest.txt
cat confirm_ctest.txt
rm -rf wt/_build
g++ -std=c++17 -O1 -w -Iwt/include demo.cpp -o demo_with.x "$@" && ./demo_with.x > confirm_with.txt 2>&1; echo "with: exit $?"
g++ -std=c++17 -O1 -w -I/repo/include demo.cpp -o demo_without.x "$@" && ./demo_without.x > confirm_without.txt 2>&1; echo "without: exit $?"
rm -f demo_with.x demo_without.x
