#!/usr/bin/env python3
"""Translator: iterators and flat element ranges of boost/multi  ->  lean/MultiModel/Gen/IterGen.lean

Companion of tools/gen_layout.py (same tokenizer, parser and conventions).  Reads, from the CURRENT source under
$VERIF_REPO (default /repo):

    detail/layout.hpp   extensions_t<D> (D > 1) and extensions_t<1>: from_linear, to_linear, next_canonical, prev_canonical
    array_ref.hpp       array_iterator<.., D, ..> (D > 1) and array_iterator<.., 1, ..>: ++ -- += -= - == < * []
                        elements_iterator_t: constructor, from_linear_, operator=, ++ -- += -= - < == * [] current
                        elements_range_t: constructor (zero_based_), at_aux_, size, is_empty, begin_aux_, end_aux_

and emits one non-recursive Lean definition per function (namespace Multi.Gen) with calls to other library functions
replaced by the hand-written model function of the same role.  `MultiProofs/GenTieIter.lean` proves each equal to the
hand-written model (`MultiModel/Iter.lean`, `Exts.*` of `MultiModel/Layout.lean`).  Functions whose C++ precondition can
fail (division by a zero element count in from_linear) return `Option`, as the hand model does.
"""
import os, re, sys, json
sys.path.insert(0, os.path.dirname(os.path.abspath(__file__)))
import gen_layout as GL
from gen_layout import TranslateError, paren, L_render, L_field, L_sub, canon2

HERE = GL.HERE
OUT = os.path.join(HERE, "lean/MultiModel/Gen/IterGen.lean")
OUTJ = os.path.join(HERE, "lean/MultiModel/Gen/IterGen.functions.json")

GL.TEMPLATE_IDS |= {"extensions_t"}
GL.CTOR_NAMES |= {"extensions_t", "indices_type", "iterator", "array_iterator", "elements_iterator_t", "cursor_t"}
GL.TEMPLATE_IDS |= {"cursor_t"}

NEXT_RE = re.compile(r"std::apply\(\s*\[&xs\s*=\s*this->xs_\]\s*\(auto&\.\.\.\s*idxs\)\s*\{\s*return\s+xs\.(next|prev)_canonical\(idxs\.\.\.\);\s*\}\s*,\s*ns_\s*\)")

RECS = {
    "arrit": ("ArrIt", ["ptr", "stride", "sub"]),
    "arrit1": ("ArrIt", ["ptr", "stride", "sub"]),
    "elemit": ("ElemIt", ["base", "lay", "n", "xs", "ns"]),
    "erange": ("ElemRange", ["base", "lay"]),
    "cursor": ("Cursor", ["base", "strides"]),
}


def rec_of(kind, var):
    if kind in ("arrit", "arrit1"):
        return {"ptr": ("int", f"{var}.ptr"), "stride": ("int", f"{var}.stride"), "sub": ("lay", ("var", f"{var}.sub"))}
    if kind == "elemit":
        return {"base": ("int", f"{var}.base"), "lay": ("lay", ("var", f"{var}.lay")), "n": ("int", f"{var}.n"), "xs": ("elist", f"{var}.xs"), "ns": ("ilist", f"{var}.ns")}
    if kind == "erange":
        return {"base": ("int", f"{var}.base"), "lay": ("lay", ("var", f"{var}.lay"))}
    if kind == "cursor":
        return {"base": ("int", f"{var}.base"), "strides": ("ilist", f"{var}.strides")}
    raise TranslateError(kind)


FIELD_OF = {
    "arrit": {"stride_": "stride"},
    "arrit1": {"stride_": "stride", "ptr_": "ptr"},
    "elemit": {"base_": "base", "l_": "lay", "n_": "n", "xs_": "xs", "ns_": "ns"},
    "erange": {"base_": "base", "l_": "lay"},
    "cursor": {"base_": "base", "strides_": "strides"},
}


def render_rec(kind, rec):
    name, fields = RECS[kind]
    vals = []
    for f in fields:
        v = rec[f]
        vals.append(L_render(v[1]) if v[0] == "lay" else v[1])
    return f"(⟨{', '.join(vals)}⟩ : {name})"


class It(GL.Interp):
    def __init__(self, kind, recv, params, fname, region_src=None, region=None):
        super().__init__("free", recv, params, fname)
        self.kind = kind
        self.binds = []
        self.refparams = []          # mutable reference parameters, in order (next_canonical / prev_canonical)
        self.region_src, self.region = region_src, region
        self.same_object = False
        if kind in RECS:
            self.rec = rec_of(kind, recv)
        self.depth = 0

    def fork(self):
        o = type(self).__new__(type(self))
        o.__dict__.update(self.__dict__)
        o.env = dict(self.env)
        o.asserts = list(self.asserts)
        o.untranslated = list(self.untranslated)
        o.lets = list(self.lets)
        o.binds = list(self.binds)
        if self.kind in RECS:
            o.rec = dict(self.rec)
        return o

    # ---- helpers
    def fresh(self, stem):
        self.depth += 1
        return f"{stem}{len(self.binds) + 1}"

    def bind(self, stem, opt_expr):
        v = self.fresh(stem)
        self.binds.append((v, opt_expr))
        return v

    def xs(self):
        """the extensions receiver as a Lean `List Ext`"""
        if self.kind in ("exts", "exts1"):
            return self.recv
        if self.kind == "elemit":
            return self.rec["xs"][1]
        raise TranslateError(f"{self.fname}: no extensions receiver")

    def this_rec(self):
        return ("rec", self.kind, dict(self.rec))

    def other_rec(self, name):
        return ("rec", self.kind, rec_of(self.kind, name))

    # ---- lvalues of record fields / reference parameters
    def lvalue(self, e):
        e = self.strip(e)
        if e[0] == "id":
            n = e[1]
            if self.kind in FIELD_OF and n in FIELD_OF[self.kind]:
                return ("recfield", FIELD_OF[self.kind][n], "rec")
            if n in self.env and self.env[n][0] in ("int", "ilist", "bool", "rec"):
                return ("local", n, "loc")
        if e[0] == "mem" and e[2] == "base_" and self.kind == "arrit":
            b = self.strip(e[1])
            if b == ("id", "ptr_", None):
                return ("recfield", "ptr", "rec")
        if e[0] == "mem" and self.strip(e[1]) == ("id", "this", None):
            return self.lvalue(("id", e[2], None))
        return super().lvalue(e)

    def read_lv(self, lv):
        if lv[0] == "recfield":
            return self.rec[lv[1]]
        if lv[0] == "local":
            return self.env[lv[1]]
        return super().read_lv(lv)

    def write_lv(self, lv, val):
        if lv[0] == "recfield":
            cur = self.rec[lv[1]]
            if cur[0] == "int":
                val = ("int", self.as_int(val))
            elif cur[0] != val[0]:
                raise TranslateError(f"{self.fname}: assigning {val[0]} to field {lv[1]} : {cur[0]}")
            self.rec[lv[1]] = val
            return
        if lv[0] == "local":
            cur = self.env[lv[1]]
            if cur[0] == "int":
                val = ("int", self.as_int(val))
            self.env[lv[1]] = val
            return
        super().write_lv(lv, val)

    # ---- expressions
    def eval(self, e):
        k = e[0]
        if k == "id":
            n = e[1]
            if n in self.env:
                return self.env[n]
            if n in ("true", "false"):
                return ("bool", n)
            if self.kind in FIELD_OF and n in FIELD_OF[self.kind]:
                return self.rec[FIELD_OF[self.kind][n]]
            if self.kind == "arrit" and n == "ptr_":
                return ("ptrD", self.rec["ptr"][1], self.rec["sub"][1])
            if n == "D" and self.kind == "exts":
                return ("int", f"({self.recv}.length : Int)")
            if n == "D" and self.kind == "cursor":
                return ("int", f"({self.recv}.strides.length : Int)")
            raise TranslateError(f"{self.fname}: unknown identifier {n}")
        if k == "?:":
            cond = self.as_bool(self.eval(e[1]))
            n0 = len(self.binds)
            a, b = self.fork(), self.fork()
            va, vb = a.eval(e[2]), b.eval(e[3])
            if len(a.binds) == n0 and len(b.binds) == n0:
                return self.ite(cond, va, vb) if va[0] != "ilist" else ("ilist", f"(if {cond} then {va[1]} else {vb[1]})")
            fa, fb = a.finish(va, n0), b.finish(vb, n0)
            if fa[1] != fb[1]:
                raise TranslateError(f"{self.fname}: conditional over {fa[1]} / {fb[1]}")
            ba = fa[2] if fa[3] else f"some {paren(fa[2])}"
            bb = fb[2] if fb[3] else f"some {paren(fb[2])}"
            return ("fin", fa[1], f"(if {cond} then {ba} else {bb})", True)
        if k in ("pre++", "pre--"):
            lv = self.lvalue(e[1])
            cur = self.as_int(self.read_lv(lv))
            self.write_lv(lv, ("int", f"({paren(cur)} {'+' if k == 'pre++' else '-'} 1)"))
            return ("lvref", lv)
        if k == "un*":
            inner = self.strip(e[1])
            if inner == ("id", "this", None):
                if self.kind in RECS:
                    return self.this_rec()
                if self.kind in ("exts", "exts1"):
                    return ("elist", self.recv)
            v = self.eval(e[1])
            if v[0] == "ptrD":
                return ("view", v[1], v[2])
            if v[0] == "int" and self.kind == "arrit1":
                return ("view", v[1], ("var", "([] : Layout)"))
            if v[0] == "rec" and v[1] in ("arrit", "arrit1"):
                t = f"(ArrIt.deref {render_rec(v[1], v[2])})"
                return ("view", t + ".base", ("var", t + ".lay"))
            raise TranslateError(f"{self.fname}: dereference of {v[0]}")
        if k == "un&":
            raise TranslateError(f"{self.fname}: address-of outside the self-assignment test")
        if k in ("==", "!="):
            l, r = self.strip(e[1]), self.strip(e[2])
            if (l[0] == "un&" and r == ("id", "this", None)) or (r[0] == "un&" and l == ("id", "this", None)):
                self.same_object = True
                return ("bool", "sameObject" if k == "==" else "(!sameObject)")
            a, b = self.eval(e[1]), self.eval(e[2])
            if a[0] == "ptrD" and b[0] == "ptrD":
                if canon2(paren(a[1]), paren(b[1]))[0] != paren(a[1]):
                    a, b = b, a
                t = f"(({paren(a[1])} == {paren(b[1])}) && ({paren(L_render(a[2]))} == {paren(L_render(b[2]))}))"
                return ("bool", t if k == "==" else f"(!{t})")
            if a[0] in ("elist", "etuple") and b[0] in ("elist", "etuple"):
                x, y = canon2(paren(a[1]), paren(b[1]))
                t = f"(Exts.eqv {x} {y})"    # tuple equality of ranges, element by element
                return ("bool", t if k == "==" else f"(!{t})")
            if a[0] == "lvref":
                a = self.read_lv(a[1])
            if b[0] == "lvref":
                b = self.read_lv(b[1])
            if a[0] in ("int", "bool") and b[0] in ("int", "bool"):
                if a[0] == "bool" or b[0] == "bool":
                    return ("bool", f"({paren(self.as_bool(a))} {k} {paren(self.as_bool(b))})")
                x, y = canon2(paren(a[1]), paren(b[1]))
                return ("bool", f"({x} {k} {y})")
        if k in ("+", "-"):
            a, b = self.eval(e[1]), self.eval(e[2])
            if a[0] == "rec" and b[0] == "rec" and k == "-":
                nm = RECS[a[1]][0]
                return ("int", f"({nm}.diff {render_rec(a[1], a[2])} {render_rec(b[1], b[2])})")
            if a[0] == "rec" and b[0] == "int":
                nm = RECS[a[1]][0]
                if nm == "ArrIt":
                    fn = "ArrIt.add" if k == "+" else "ArrIt.sub'"
                    return ("rec", a[1], rec_of(a[1], f"({fn} {render_rec(a[1], a[2])} {paren(b[1])})"))
        if k == "index" and self.kind == "cursor":
            v = self.eval(e[1])
            if v[0] == "int":      # base_[i] of a one-dimensional cursor: the element at that address = a cursor with no stride left
                return ("rec", "cursor", {"base": ("int", f"({paren(v[1])} + {paren(self.as_int(self.eval(e[2])))})"), "strides": ("ilist", "([] : List Int)")})
        if k == "index":
            v = self.eval(e[1])
            if v[0] == "int":      # base_[i]: the element at that address
                return ("int", f"({paren(v[1])} + {paren(self.as_int(self.eval(e[2])))})")
        if k == "construct":
            base = e[1].split("::")[-1]
            a = [self.eval(x) for x in e[3]]
            if base == "extensions_t" and len(a) == 1 and a[0][0] == "elist":
                return a[0]
            if base == "cursor_t" and len(a) == 2 and a[0][0] == "int" and a[1][0] == "ilist":
                return ("rec", "cursor", {"base": a[0], "strides": a[1]})
            if base == "indices_type":
                if not a:
                    return ("ilist", f"(List.replicate {paren(self.xs())}.length (0 : Int))")
                if len(a) == 1 and a[0][0] == "int":
                    return ("ilist", f"[{a[0][1]}]")
            if base in ("iterator", "elements_iterator_t") and self.kind == "erange" and len(a) == 3 and a[0][0] == "int" and a[1][0] == "lay":
                r = f"(⟨{a[0][1]}, {L_render(a[1][1])}⟩ : ElemRange)"
                v = self.bind("it", f"ElemRange.mkIt {r} {paren(self.as_int(a[2]))}")
                return ("rec", "elemit", rec_of("elemit", v))
        if k == "mem":
            name = e[2]
            obj = self.strip(e[1])
            if obj[0] == "id" and obj[1] in ("other", "self") and self.kind in RECS:
                who = self.recv if obj[1] == "self" else "other"
                rec = self.rec if obj[1] == "self" else rec_of(self.kind, "other")
                if name in FIELD_OF[self.kind]:
                    return rec[FIELD_OF[self.kind][name]]
                if name == "ptr_" and self.kind == "arrit":
                    return ("ptrD", rec["ptr"][1], rec["sub"][1])
            if obj == ("id", "this", None) and self.kind in RECS:
                return self.eval(("id", name, None))
            if name == "base_":
                v = self.eval(e[1])
                if v[0] == "ptrD":
                    return ("int", v[1])
        if k == "call":
            r = self.call_it(e)
            if r is not None:
                return r
        return super().eval(e)

    def as_int(self, v):
        if v[0] == "lvref":
            v = self.read_lv(v[1])
        return super().as_int(v)

    def call_it(self, e):
        fn, args = e[1], e[2]
        fn = fn if fn[0] != "paren" else fn[1]
        if fn[0] == "id":
            name = fn[1]
            base = name.split("::")[-1]
            if base in ("NEXT_CANONICAL__", "PREV_CANONICAL__"):
                f = "Exts.nextCanonical" if base.startswith("NEXT") else "Exts.prevCanonical"
                xs, ns = self.rec["xs"][1], self.rec["ns"][1]
                self.rec["ns"] = ("ilist", f"({f} {paren(xs)} {paren(ns)}).1")
                return ("bool", f"({f} {paren(xs)} {paren(ns)}).2")
            if name == "std::apply" and len(args) == 2:
                a, b = self.eval(args[0]), self.eval(args[1])
                if a[0] == "elist" and b[0] == "ilist":
                    return ("int", f"(Exts.toLinear {paren(a[1])} {paren(b[1])})")
                if a[0] == "lay" and b[0] == "ilist":
                    return ("int", f"(Layout.apply {paren(L_render(a[1]))} {paren(b[1])})")
                raise TranslateError(f"{self.fname}: std::apply over {a[0]}, {b[0]}")
            if base == "ht_tuple" and len(args) == 2:
                a, b = self.eval(args[0]), self.eval(args[1])
                if b[0] == "ilist":
                    return ("ilist", f"({self.as_int(a)} :: {paren(b[1])})")
            if base == "get" and fn[2] == "0" and len(args) == 1:
                v = self.eval(args[0])
                if v[0] == "etuple":
                    return ("ext", f"(hdE {paren(v[1])})")
                if v[0] == "ilist":
                    return ("int", f"(List.headD {paren(v[1])} 0)")
            if base in ("from_linear_",) and self.kind == "elemit" and len(args) == 1:
                v = self.bind("ns", f"ElemRange.fromLinearG {paren(self.rec['xs'][1])} {paren(self.as_int(self.eval(args[0])))}")
                return ("ilist", v)
            if base in ("advance_", "decrement_", "zero_based_") and self.region is not None:
                return self.inline(base, args)
            if base in ("is_empty", "stride", "size") and self.kind in RECS and not args:
                return self.method_on_this(base)
            if base == "base" and not args and self.kind in ("exts", "exts1"):
                return ("etuple", self.recv)
            return None
        if fn[0] == "mem":
            obj, name = fn[1], fn[2]
            so = self.strip(obj)
            if so == ("id", "this", None):
                if name == "base" and not args:
                    if self.kind in ("exts", "exts1"):
                        return ("etuple", self.recv)
                if self.kind in RECS:
                    if name in ("stride", "is_empty", "size") and not args:
                        return self.method_on_this(name)
                return None
            try:
                v = self.eval(obj)
            except TranslateError:
                return None
            if v[0] == "lvref":
                v = self.read_lv(v[1])
            a = None
            if v[0] == "ilist" and name == "tail" and not args:
                return ("ilist", f"(List.tail {paren(v[1])})")
            if v[0] == "etuple":
                if name == "head" and not args:
                    return ("ext", f"(hdE {paren(v[1])})")
                if name == "tail" and not args:
                    return ("elist", f"(List.tail {paren(v[1])})")
            if v[0] == "elist":
                a = [self.eval(x) for x in args]
                X = paren(v[1])
                if name == "tail" and not a:
                    return ("elist", f"(List.tail {X})")
                if name == "base" and not a:
                    return ("etuple", v[1])
                if name == "num_elements" and not a:
                    return ("int", f"(Exts.numElements {X})")
                if name == "from_linear" and len(a) == 1:
                    w = self.bind("r", f"Exts.fromLinear {X} {paren(self.as_int(a[0]))}")
                    return ("ilist", w)
                if name == "to_linear" and len(a) == 1 and a[0][0] == "ilist":
                    return ("int", f"(Exts.toLinear {X} {paren(a[0][1])})")
                if name in ("next_canonical", "prev_canonical") and len(a) == 1 and a[0][0] == "ilist":
                    f = "Exts.nextCanonical" if name.startswith("next") else "Exts.prevCanonical"
                    # the pack is passed by reference: it is updated in place
                    inner = self.strip(args[0])
                    if inner[0] == "pack":
                        lv = self.lvalue(inner[1])
                        self.write_lv(lv, ("ilist", f"({f} {X} {paren(a[0][1])}).1"))
                    return ("bool", f"({f} {X} {paren(a[0][1])}).2")
            if v[0] == "ptrD":
                if name == "base" and not args:
                    return ("int", v[1])
                if name == "layout" and not args:
                    return ("lay", v[2])
            if v[0] == "view" and name == "layout" and not args:
                return ("lay", v[2])
            if v[0] == "rec" and v[1] in ("arrit", "arrit1") and name == "stride" and not args:
                return v[2]["stride"]
            if v[0] == "lay" and name == "extensions" and not args:
                return ("elist", f"(Layout.exts {paren(L_render(v[1]))})")
            if v[0] == "lay" and name == "reindex" and len(args) == 1:
                a = [self.eval(x) for x in args]
                if a[0][0] == "zeros":
                    L = v[1]
                    return ("lay", ("var", f"(Layout.reindex {paren(L_render(L))} (List.replicate {paren(L_render(L))}.length 0))"))
            return None
        return None

    def method_on_this(self, name):
        if name == "stride" and self.kind in ("arrit", "arrit1"):
            return self.rec["stride"]
        if name == "is_empty" and self.kind == "erange":
            return ("bool", f"(Layout.isEmpty {paren(L_render(self.rec['lay'][1]))})")
        raise TranslateError(f"{self.fname}: {name}() on this")

    def inline(self, name, args):
        rel, hdr = self.region
        lo, hi = GL.class_region(self.region_src, hdr)
        cands = [c for c in GL.member_functions(self.region_src, lo, hi, name)]
        if len(cands) != 1:
            raise TranslateError(f"{self.fname}: helper {name}: {len(cands)} definitions")
        fn = cands[0]
        pn = GL.param_names(fn["params"])
        if len(pn) != len(args):
            raise TranslateError(f"{self.fname}: helper {name} arity")
        child = self.fork()
        for (n, _), a in zip(pn, args):
            child.env[n] = self.eval(a)
        ast = GL.P(GL.lex("{" + fn["body"] + "}", fn["line"])).block()
        r = child.run(ast[1])
        self.rec = child.rec
        self.binds = child.binds
        self.asserts = child.asserts
        return r if r is not None else ("void",)

    # ---- statements (as the base class, plus Option-valued continuations)
    def finish(self, v, nparent):
        """render a returned value, wrapped with the binds made since `nparent`"""
        if v[0] == "fin":
            ty, body, isopt = v[1], v[2], v[3]
        else:
            ty, body = self.render_value(v)
            isopt = False
        extra = self.binds[nparent:]
        if extra:
            if not isopt:
                body = f"some {paren(body)}"
            for var, ex in reversed(extra):
                body = f"(({ex}).bind fun {var} => {body})"
            isopt = True
        return ("fin", ty, body, isopt)

    def render_value(self, v):
        if v[0] == "lvref":
            v = self.read_lv(v[1])
        if v[0] == "int":
            return "Int", v[1]
        if v[0] == "bool":
            if self.refparams:
                return "List Int × Bool", f"({self.render_refs()}, {v[1]})"
            return "Bool", v[1]
        if v[0] == "ilist":
            return "List Int", v[1]
        if v[0] == "ext":
            return "Ext", v[1]
        if v[0] == "lay":
            return "Layout", L_render(v[1])
        if v[0] == "view":
            return "View", f"(⟨{v[1]}, {L_render(v[2])}⟩ : View)"
        if v[0] == "rec":
            return RECS[v[1]][0], render_rec(v[1], v[2])
        raise TranslateError(f"{self.fname}: result kind {v[0]}")

    def render_refs(self):
        parts = []
        for n, kind in self.refparams:
            v = self.env[n]
            parts.append((kind, v[1]))
        if len(parts) == 1 and parts[0][0] == "int":
            return f"[{parts[0][1]}]"
        if len(parts) == 2 and parts[0][0] == "int" and parts[1][0] == "ilist":
            return f"({parts[0][1]} :: {paren(parts[1][1])})"
        raise TranslateError(f"{self.fname}: reference parameters {parts}")

    def run(self, stmts):
        for idx, st in enumerate(stmts):
            k = st[0]
            if k == "if":
                _, c, th, el, cx, ln = st
                cond = self.as_bool(self.eval(c))
                rest = stmts[idx + 1:]
                n0 = len(self.binds)
                a = self.fork()
                ra = a.run([th] + rest)
                b = self.fork()
                rb = b.run(([el] if el is not None else []) + rest)
                if ra is None or rb is None:
                    raise TranslateError(f"{self.fname}: `if` without a return on every path")
                fa, fb = a.finish(ra, n0), b.finish(rb, n0)
                self.asserts = self.asserts + [f"(!{paren(cond)} || {x})" for x in a.asserts[len(self.asserts):]] + [f"({paren(cond)} || {x})" for x in b.asserts[len(self.asserts):]]
                self.same_object = a.same_object or b.same_object
                if fa[1] != fb[1]:
                    raise TranslateError(f"{self.fname}: branches of different types {fa[1]} / {fb[1]}")
                isopt = fa[3] or fb[3]
                ba = fa[2] if fa[3] or not isopt else f"some {paren(fa[2])}"
                bb = fb[2] if fb[3] or not isopt else f"some {paren(fb[2])}"
                return ("fin", fa[1], f"(if {cond} then {ba} else {bb})", isopt)
            if k == "return":
                if st[1] is None:
                    return ("void",)
                v = self.eval(st[1])
                return v
            if k == "expr":
                self.eval(st[1])
                continue
            if k == "decl":
                _, name, ty, how, args, ln = st
                if how == "copy" or (how == "init" and len(args) == 1 and "layout_t" not in ty):
                    v = self.eval(args[0])
                    if v[0] == "lvref":
                        v = self.read_lv(v[1])
                    self.env[name] = v
                    continue
            if k == "assign":
                _, op, l, r, ln = st
                lv = self.lvalue(l)
                if lv[0] in ("recfield", "local"):
                    rv = self.eval(r)
                    if op == "=":
                        self.write_lv(lv, rv)
                    else:
                        cur = self.as_int(self.read_lv(lv))
                        x = self.as_int(rv)
                        o = op[0]
                        new = {"+": f"({paren(cur)} + {paren(x)})", "-": f"({paren(cur)} - {paren(x)})", "*": f"({paren(cur)} * {paren(x)})"}[o]
                        self.write_lv(lv, ("int", new))
                    continue
            r = super().run([st])
            if r is not None:
                return r
        return None


# ------------------------------------------------------------------------------------------------ targets
REGIONS = {
    "extsD": ("detail/layout.hpp", r"struct\s+extensions_t\s*:\s*boost::multi::detail::tuple_prepend_t"),
    "exts1": ("detail/layout.hpp", r"template<>\s*struct\s+extensions_t<1>"),
    "arritD": ("array_ref.hpp", r"struct\s+array_iterator\s+//[^\n]*\n\s*:|struct\s+array_iterator\s*:\s*boost::multi::iterator_facade|struct\s+array_iterator\s+:"),
    "arrit1": ("array_ref.hpp", r"struct\s+array_iterator<Element,\s*1,\s*Ptr,\s*IsConst,\s*IsMove,\s*Stride>"),
    "elemit": ("array_ref.hpp", r"struct\s+elements_iterator_t\s*:"),
    "erange": ("array_ref.hpp", r"struct\s+elements_range_t\s*\{"),
    "cursor": ("array_ref.hpp", r"struct\s+cursor_t\s*\{"),
}

# (lean name, region, C++ name or operator, selector, kind)
TARGETS = [
    ("X_from_linear", "extsD", "from_linear", dict(nparams=1), "exts"),
    ("X_to_linear", "extsD", "to_linear", dict(nparams=2), "exts"),
    ("X_next_canonical", "extsD", "next_canonical", dict(nparams=2), "exts"),
    ("X_prev_canonical", "extsD", "prev_canonical", dict(nparams=2), "exts"),
    ("X_eq", "extsD", "operator==", dict(nparams=2), "exts"),
    ("X_ne", "extsD", "operator!=", dict(nparams=2), "exts"),
    ("X1_eq", "exts1", "operator==", dict(nparams=1), "exts1"),
    ("X1_ne", "exts1", "operator!=", dict(nparams=1), "exts1"),
    ("X1_from_linear", "exts1", "from_linear", dict(nparams=1), "exts1"),
    ("X1_to_linear", "exts1", "to_linear", dict(nparams=1), "exts1"),
    ("X1_num_elements", "exts1", "num_elements", dict(nparams=0), "exts1"),
    ("X1_next_canonical", "exts1", "next_canonical", dict(nparams=1), "exts1"),
    ("X1_prev_canonical", "exts1", "prev_canonical", dict(nparams=1), "exts1"),
    ("I_inc", "arritD", "operator++", dict(nparams=0), "arrit"),
    ("I_dec", "arritD", "operator--", dict(nparams=0), "arrit"),
    ("I_add", "arritD", "operator+=", dict(nparams=1), "arrit"),
    ("I_sub", "arritD", "operator-=", dict(nparams=1), "arrit"),
    ("I_diff", "arritD", "operator-", dict(nparams=2), "arrit"),
    ("I_eq", "arritD", "operator==", dict(nparams=1, params=r"^array_iterator const& other$"), "arrit"),
    ("I_lt", "arritD", "operator<", dict(nparams=1), "arrit"),
    ("I_deref", "arritD", "operator*", dict(nparams=0), "arrit"),
    ("I_at", "arritD", "operator[]", dict(nparams=1), "arrit"),
    ("I1_inc", "arrit1", "operator++", dict(nparams=0), "arrit1"),
    ("I1_dec", "arrit1", "operator--", dict(nparams=0), "arrit1"),
    ("I1_add", "arrit1", "operator+=", dict(nparams=1), "arrit1"),
    ("I1_sub", "arrit1", "operator-=", dict(nparams=1), "arrit1"),
    ("I1_diff", "arrit1", "operator-", dict(nparams=1, params=r"^array_iterator const& other$"), "arrit1"),
    ("I1_eq", "arrit1", "operator==", dict(nparams=1, params=r"^array_iterator const& other$"), "arrit1"),
    ("I1_lt", "arrit1", "operator<", dict(nparams=1), "arrit1"),
    ("I1_deref", "arrit1", "operator*", dict(nparams=0), "arrit1"),
    ("I1_at", "arrit1", "operator[]", dict(nparams=1), "arrit1"),
    ("E_from_linear", "elemit", "from_linear_", dict(nparams=1), "elemit"),
    ("E_assign", "elemit", "operator=", dict(nparams=1), "elemit"),
    ("E_inc", "elemit", "operator++", dict(nparams=0), "elemit"),
    ("E_dec", "elemit", "operator--", dict(nparams=0), "elemit"),
    ("E_add", "elemit", "operator+=", dict(nparams=1), "elemit"),
    ("E_sub", "elemit", "operator-=", dict(nparams=1), "elemit"),
    ("E_diff", "elemit", "operator-", dict(nparams=1, params=r"^elements_iterator_t const& other$"), "elemit"),
    ("E_lt", "elemit", "operator<", dict(nparams=1), "elemit"),
    ("E_eq", "elemit", "operator==", dict(nparams=1, params=r"^elements_iterator_t const& other$"), "elemit"),
    ("E_deref", "elemit", "operator*", dict(nparams=0), "elemit"),
    ("E_current", "elemit", "current", dict(nparams=0), "elemit"),
    ("E_at", "elemit", "operator[]", dict(nparams=1), "elemit"),
    ("CU_index", "cursor", "operator[]", dict(nparams=1), "cursor"),
    ("ER_at_aux", "erange", "at_aux_", dict(nparams=1), "erange"),
    ("ER_size", "erange", "size", dict(nparams=0), "erange"),
    ("ER_is_empty", "erange", "is_empty", dict(nparams=0), "erange"),
    ("ER_begin_aux", "erange", "begin_aux_", dict(nparams=0), "erange"),
    ("ER_end_aux", "erange", "end_aux_", dict(nparams=0), "erange"),
]

OPS = ["++", "--", "+=", "-=", "==", "!=", "<", "-", "*", "[]", "="]


def find_functions(src, lo, hi, cpp):
    if cpp.startswith("operator"):
        return GL.member_functions_op(src, lo, hi, cpp[8:])
    return GL.member_functions(src, lo, hi, cpp)


def prep(src):
    return NEXT_RE.sub(lambda m: ("NEXT" if m.group(1) == "next" else "PREV") + "_CANONICAL__(xs_, ns_)", src)


def param_kinds(params, kind):
    """[(name, kind)] — `T& x` and `Ts&... xs` are mutable reference parameters"""
    out = []
    for p in split_params(params):
        m = re.match(r"(.*?)(\.\.\.)?\s*([A-Za-z_][A-Za-z_0-9]*)\s*$", p, re.S)
        if not m:
            raise TranslateError(f"parameter {p!r}")
        ty, pack, name = m.group(1).strip(), m.group(2), m.group(3)
        isref = ty.endswith("&") and "const" not in ty
        if re.search(r"(array_iterator|elements_iterator_t)\s+const\s*&$", ty):
            out.append((name, "rec", False))
        elif re.search(r"extensions_t\s+const\s*&$", ty):
            out.append((name, "elist", False))
        elif pack:
            out.append((name, "ilist", isref))
        else:
            out.append((name, "int", isref))
    return out


def split_params(params):
    depth, cur, parts = 0, "", []
    for ch in params:
        if ch in "<(":
            depth += 1
        elif ch in ">)":
            depth -= 1
        if ch == "," and depth == 0:
            parts.append(cur)
            cur = ""
        else:
            cur += ch
    if cur.strip():
        parts.append(cur)
    return [p.strip() for p in parts if p.strip()]


def translate_one(lean_name, region, cpp, sel, kind):
    rel, hdr = REGIONS[region]
    src = prep(GL.source(rel))
    lo, hi = GL.class_region(src, hdr)
    cands = find_functions(src, lo, hi, cpp)
    c = [x for x in cands if len(split_params(x["params"])) == sel["nparams"]]
    if "params" in sel:
        c = [x for x in c if re.search(sel["params"], " ".join(x["params"].split()))]
    if cpp == "operator-" and kind in ("arrit", "arrit1"):
        c = [x for x in c if "difference_type n" not in x["params"]]
    if cpp in ("operator*", "operator-") and kind in ("arrit", "arrit1", "elemit") and sel["nparams"] == 0:
        c = [x for x in c if not x["params"].strip()]
    if not c:
        raise TranslateError(f"{rel}:{cpp}: no definition matching {sel}")
    rendered = []
    for fn in c:
        recv = {"exts": "xs", "exts1": "xs", "arrit": "it", "arrit1": "it", "elemit": "it", "erange": "r", "cursor": "c"}[kind]
        it = It(kind, recv, {}, f"{rel}:{fn['line']}:{cpp}", src, (rel, hdr))
        it.home = (src, lo, hi)
        binders = []
        for n, k, isref in param_kinds(fn["params"], kind):
            ln = GL.lean_ident(n)
            if k == "elist":
                if n == "self":
                    it.env[n] = ("elist", recv)
                    continue
                it.env[n] = ("elist", ln)
                binders.append(f"({ln} : List Ext)")
                continue
            if k == "rec":
                if n == "self":
                    continue
                it.env[n] = ("rec", kind, rec_of(kind, "other"))
                if "(other : " not in " ".join(binders):
                    binders.append(f"(other : {RECS[kind][0]})")
            elif k == "ilist":
                it.env[n] = ("ilist", ln)
                binders.append(f"({ln} : List Int)")
            else:
                it.env[n] = ("int", ln)
                binders.append(f"({ln} : Int)")
            if isref:
                it.refparams.append((n, k))
        if kind in RECS and any(n == "self" for n, _, _ in param_kinds(fn["params"], kind)):
            it.env["self"] = ("rec", kind, dict(it.rec))
        ast = GL.P(GL.lex("{" + fn["body"] + "}", fn["line"])).block()
        r = it.run(ast[1])
        if r is None:
            raise TranslateError(f"{rel}:{fn['line']}:{cpp}: no return value")
        fin = it.finish(r, 0)
        ty = f"Option ({fin[1]})" if fin[3] else fin[1]
        recvb = {"exts": "(xs : List Ext)", "exts1": "(xs : List Ext)", "arrit": "(it : ArrIt)", "arrit1": "(it : ArrIt)", "elemit": "(it : ElemIt)", "erange": "(r : ElemRange)", "cursor": "(c : Cursor)"}[kind]
        b = " ".join([recvb] + binders + (["(sameObject : Bool)"] if it.same_object else []))
        text = f"def {lean_name} {b} : {ty} :=\n  {fin[2]}\n"
        if it.asserts:
            text += f"/-- the assertions of the body, in order -/\ndef {lean_name}_asserts {b} : Bool :=\n  " + " &&\n  ".join(it.asserts) + "\n"
        else:
            text += f"/-- the body has no assertion -/\ndef {lean_name}_asserts {b} : Bool := true\n"
        rendered.append((text, fn, it, ty))
    if len(set(x[0] for x in rendered)) != 1:
        raise TranslateError(f"{rel}:{cpp}: the overloads {[x[1]['line'] for x in rendered]} differ")
    fn = rendered[0][1]
    doc = f"/-- {rel}:{', '.join(str(x[1]['line']) for x in rendered)}  `{cpp}({' '.join(fn['params'].split())}) {fn['quals']}` -/"
    return doc + "\n" + rendered[0][0], dict(lean=lean_name, file=rel, lines=[x[1]["line"] for x in rendered], extents=[[x[1]["line"], x[1]["end_line"]] for x in rendered], cpp=cpp, asserts=len(rendered[0][2].asserts),
                                             untranslated_asserts=rendered[0][2].untranslated, result=rendered[0][3])


def elemit_ctor():
    rel, hdr = REGIONS["elemit"]
    src = prep(GL.source(rel))
    lo, hi = GL.class_region(src, hdr)
    cands = [c for c in GL.member_functions(src, lo, hi, "elements_iterator_t") if c["init"] and len(split_params(c["params"])) == 3]
    if len(cands) != 1:
        raise TranslateError(f"{rel}: elements_iterator_t(pointer, layout, n): {len(cands)} candidates")
    init = re.sub(r"\s+", "", cands[0]["init"])
    pn = [m.group(3) for m in (re.match(r"(.*?)(\.\.\.)?\s*([A-Za-z_][A-Za-z_0-9]*)\s*$", p, re.S) for p in split_params(cands[0]["params"]))]
    want = f"base_{{{pn[0]}}},l_{{{pn[1]}}},n_{{{pn[2]}}},xs_{{l_.extensions()}},ns_{{from_linear_({pn[2]})}}"
    if init != want:
        raise TranslateError(f"{rel}:{cands[0]['line']}: constructor initialisers are {init!r}, expected {want!r}")
    txt = (f"/-- {rel}:{cands[0]['line']}  `elements_iterator_t(pointer base, layout_type const& lyt, difference_type n)`: "
           f"`base_{{base}}, l_{{lyt}}, n_{{n}}, xs_{{l_.extensions()}}, ns_{{from_linear_(n)}}` -/\n"
           "def E_ctor (base : Int) (lyt : Layout) (n : Int) : Option (ElemIt) :=\n"
           "  ((ElemRange.fromLinearG (Layout.exts lyt) n).bind fun ns1 => some (⟨base, lyt, n, Layout.exts lyt, ns1⟩ : ElemIt))\n")
    return txt, dict(lean="E_ctor", file=rel, lines=[cands[0]["line"]], cpp="elements_iterator_t(pointer, layout_type const&, difference_type)", asserts=0, untranslated_asserts=[], result="Option ElemIt")


def erange_ctor():
    rel, hdr = REGIONS["erange"]
    src = prep(GL.source(rel))
    lo, hi = GL.class_region(src, hdr)
    cands = [c for c in GL.member_functions(src, lo, hi, "elements_range_t") if c["init"] and len(split_params(c["params"])) == 2]
    if len(cands) != 1:
        raise TranslateError(f"{rel}: elements_range_t(pointer, layout): {len(cands)} candidates")
    init = re.sub(r"\s+", "", cands[0]["init"])
    if not re.fullmatch(r"base_\{base\},l_\{zero_based_\(lyt,std::make_index_sequence<static_cast<std::size_t>\(layout_type::rank_v\)>\{\}\)\}", init):
        raise TranslateError(f"{rel}:{cands[0]['line']}: elements_range_t initialisers are {init!r}")
    zb = GL.member_functions(src, lo, hi, "zero_based_")
    if len(zb) != 1:
        raise TranslateError(f"{rel}: zero_based_: {len(zb)} definitions")
    body = re.sub(r"\s+", "", zb[0]["body"])
    if body != "returnlyt.reindex((static_cast<void>(I),typenamelayout_type::index{0})...);":
        raise TranslateError(f"{rel}:{zb[0]['line']}: zero_based_ body is {body!r}")
    txt = (f"/-- {rel}:{cands[0]['line']}, {zb[0]['line']}  `elements_range_t(pointer base, layout_type const& lyt) : base_{{base}}, l_{{zero_based_(lyt, …)}}` with "
           "`zero_based_` = `lyt.reindex(0, …, 0)` (one zero per dimension) -/\n"
           "def ER_ctor (base : Int) (lyt : Layout) : ElemRange :=\n"
           "  (⟨base, Layout.reindex lyt (List.replicate lyt.length 0)⟩ : ElemRange)\n")
    return txt, dict(lean="ER_ctor", file=rel, lines=[cands[0]["line"], zb[0]["line"]], cpp="elements_range_t(pointer, layout_type const&)", asserts=0, untranslated_asserts=[], result="ElemRange")


def home_aux():
    rel = "array_ref.hpp"
    src = prep(GL.source(rel))
    lines = []
    for region in ("viewD", "view1"):
        lo, hi = GL.class_region(src, GL.REGIONS[region][1])
        cands = GL.member_functions(src, lo, hi, "home_aux_")
        if len(cands) != 1:
            raise TranslateError(f"{rel}: home_aux_ in {region}: {len(cands)} definitions")
        body = re.sub(r"\s+", "", cands[0]["body"])
        if body != "returncursor(this->base_,this->strides());":
            raise TranslateError(f"{rel}:{cands[0]['line']}: home_aux_ body is {body!r}")
        lines.append(cands[0]["line"])
    txt = (f"/-- {rel}:{', '.join(map(str, lines))}  `home_aux_() const {{return cursor(this->base_, this->strides());}}` (D > 1 class and D = 1 specialisation) -/\n"
           "def V_home_aux (v : View) : Cursor :=\n  (⟨v.base, Layout.strides v.lay⟩ : Cursor)\n")
    return txt, dict(lean="V_home_aux", file=rel, lines=lines, cpp="home_aux_", asserts=0, untranslated_asserts=[], result="Cursor")


PRELUDE = """/-
  GENERATED by tools/gen_iters.py from the headers under $VERIF_REPO/include/boost/multi — DO NOT EDIT.
  Iterators (`array_iterator`), flat element iterators/ranges (`elements_iterator_t`, `elements_range_t`) and the
  mixed-radix counter of `extensions_t`.  `MultiProofs/GenTieIter.lean` proves each definition equal to the hand model.
-/
import MultiModel.Iter

set_option linter.unusedVariables false

namespace Multi.Gen
open Multi

/-- leading extension of an `extensions_t<D>` (`this->base().head()`, `get<0>(this->base())`) -/
def hdE (xs : List Ext) : Ext := xs.headD ⟨0, 0⟩
@[simp] theorem hdE_cons (e : Ext) (es : List Ext) : hdE (e :: es) = e := rfl

"""


def main():
    out = [PRELUDE]
    meta, errors = [], []
    for f in (elemit_ctor, erange_ctor, home_aux):
        try:
            t, m = f()
            out.append(t)
            meta.append(m)
        except TranslateError as ex:
            errors.append(str(ex))
    for (lean_name, region, cpp, sel, kind) in TARGETS:
        try:
            t, m = translate_one(lean_name, region, cpp, sel, kind)
            out.append(t)
            meta.append(m)
        except TranslateError as ex:
            errors.append(f"{lean_name}: {ex}")
            out.append(f"/-- NOT TRANSLATED: {str(ex)[:200].replace('-/', '- /')} -/\ndef {lean_name}_untranslated : Unit := ()\n")
    out.append("end Multi.Gen\n")
    text = "\n".join(out)
    old = open(OUT).read() if os.path.exists(OUT) else None
    if old != text:
        open(OUT, "w").write(text)
    json.dump({"functions": meta, "errors": errors}, open(OUTJ, "w"), indent=1)
    print(f"gen_iters: {len(meta)} functions translated, {sum(m['asserts'] for m in meta)} assertions, "
          f"{sum(len(m['untranslated_asserts']) for m in meta)} assertions outside the vocabulary, {len(errors)} errors; "
          f"{'unchanged' if old == text else 'REWRITTEN'} {os.path.relpath(OUT, HERE)}")
    for e in errors:
        print("gen_iters: ERROR", e)
    return 2 if errors else 0


if __name__ == "__main__":
    sys.exit(main())
