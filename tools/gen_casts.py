#!/usr/bin/env python3
"""Translator: the projection casts of array_ref.hpp  ->  lean/MultiModel/Gen/CastGen.lean

member_cast and reinterpret_array_cast<U>() / (n) of const_subarray<T, D> (D > 1), of the mutable class subarray, and of
the D = 1 specialisation, over the typed views of MultiModel/Cast.lean (`TView`: element size, byte origin, view).
`sizeof(T)` is the source's element size `t.esz`, `sizeof(T2)` the parameter `sT2`; every pointer cast of `base_`
(`reinterpret_pointer_cast<P2>`, `static_cast<P2>(static_cast<void*>(…))`, `reinterpret_cast<P2 const&>`) keeps the byte
address `t.ptr`; `&(base_->*member)` is `t.ptr + off` (`off = offsetof(T, member)`); `static_assert(c, "…")` and
`BOOST_MULTI_ASSERT(c)` are the function's assertions.  `if constexpr(std::is_pointer_v<ElementPtr>)` becomes a test of the
Boolean parameter `isRaw` (the tie is proved for both values).  Same tokenizer / parser / evaluator as gen_layout.py;
`MultiProofs/GenTieCast.lean` proves each definition equal to the hand model.
"""
import os, re, sys, json
sys.path.insert(0, os.path.dirname(os.path.abspath(__file__)))
import gen_layout as GL
from gen_layout import TranslateError, paren, L_render

HERE = GL.HERE
OUT = os.path.join(HERE, "lean/MultiModel/Gen/CastGen.lean")
OUTJ = os.path.join(HERE, "lean/MultiModel/Gen/CastGen.functions.json")
REL = "array_ref.hpp"
GL.TEMPLATE_IDS |= {"reinterpret_cast", "member_cast", "reinterpret_array_cast_aux_"}

REGIONS = {
    "viewD": r"struct\s+const_subarray\s*:\s*array_types<T,\s*D,\s*ElementPtr,\s*Layout>",
    "subD": r"class\s+subarray\s*:\s*public\s+const_subarray<T,\s*D,\s*ElementPtr,\s*Layout>",
    "view1": r"struct\s+const_subarray<T,\s*1,\s*ElementPtr,\s*Layout>",
}


GNUC_MEMBER = re.compile(
    r"auto&&\s*r1\s*=\s*\(\*\(reinterpret_cast<typename const_subarray::element_type\* const&>\(const_subarray::base_\)\)\)\.\*member;\s*"
    r"auto\*\s*p1\s*=\s*&r1;\s*P2\s+p2\s*=\s*reinterpret_cast<P2&>\(p1\);\s*"
    r"auto\s+p2\s*=\s*static_cast<P2>\(&\(this->base_->\*member\)\);")


def prep(body):
    # D = 1 member_cast: `#if defined(__GNUC__) … #else … #endif` — both spellings compute the address of the member of *base_
    body = GNUC_MEMBER.sub("auto p2 = MEMBER_ADDR__(this->base_);", body)
    body = re.sub(r"&\(\s*this->base_\s*->\*\s*member\s*\)", "MEMBER_ADDR__(this->base_)", body)
    body = re.sub(r"reinterpret_pointer_cast_?<P2>\(", "REINTERPRET__(", body)
    body = re.sub(r"static_cast<P2>\(\s*static_cast<void_ptr_like>\(", "REINTERPRET__((", body)
    body = re.sub(r"static_cast<P2>\(\s*static_cast<void\*>\(", "REINTERPRET__((", body)
    body = re.sub(r"reinterpret_cast<P2 const&>\(", "REINTERPRET__(", body)
    body = re.sub(r"static_cast<P2>\(", "REINTERPRET__(", body)
    body = body.replace("std::is_pointer_v<ElementPtr>", "IS_RAW_POINTER__")
    body = re.sub(r"this->member_cast<T2, P2, Element, PM>\(", "this->member_cast(", body)
    body = re.sub(r"reinterpret_array_cast_aux_<T2, P2>\(", "reinterpret_array_cast_aux_(", body)
    # static_assert(cond, "message" "more") -> assert(cond)
    out, i = [], 0
    while True:
        j = body.find("static_assert(", i)
        if j < 0:
            out.append(body[i:])
            break
        out.append(body[i:j])
        p0 = j + len("static_assert")
        p1 = GL.match_brace(body, p0, "(", ")")
        inner = body[p0 + 1:p1]
        depth, cut = 0, len(inner)
        for k, ch in enumerate(inner):
            if ch in "(<":
                depth += 1
            elif ch in ")>":
                depth -= 1
            elif ch == "," and depth == 0:
                cut = k
                break
        out.append("assert(" + inner[:cut] + ")")
        i = p1 + 1
    return "".join(out)


class CI(GL.Interp):
    def __init__(self, fname):
        super().__init__("view", "t.v", {}, fname)
        self.uses_raw = False

    def eval(self, e):
        if e[0] == "id" and e[1] == "IS_RAW_POINTER__":
            self.uses_raw = True
            return ("bool", "isRaw")
        if e[0] == "call" and e[1][0] == "id":
            name = e[1][1]
            if name == "sizeof" and len(e[2]) == 1 and e[2][0][0] == "id":
                if e[2][0][1] == "T":
                    return ("int", "t.esz")
                if e[2][0][1] == "T2":
                    return ("int", "sT2")
            if name in ("REINTERPRET__", "MEMBER_ADDR__") and len(e[2]) == 1:
                v = self.eval(e[2][0])
                if name == "REINTERPRET__" and v in (("int", "t.ptr"), ("int", "(t.ptr + off)")):
                    return v
                if v != ("int", "t.v.base"):
                    raise TranslateError(f"{self.fname}: pointer cast of something else than base_: {v!r}")
                return ("int", "t.ptr" if name == "REINTERPRET__" else "(t.ptr + off)")
            if name == "reinterpret_array_cast_aux_" and not e[2]:
                return ("view", "(TView.reinterpret t sT2).ptr", ("var", "(TView.reinterpret t sT2).v.lay"))
        if e[0] == "call" and e[1][0] == "mem" and e[1][2] == "as_const" and not e[2]:
            return self.eval(e[1][1])
        if e[0] == "call" and e[1][0] == "mem" and e[1][2] == "member_cast" and self.strip(e[1][1]) == ("id", "this", None):
            return ("view", "(TView.memberCast t sT2 off).ptr", ("var", "(TView.memberCast t sT2 off).v.lay"))
        if e[0] == "call" and e[1][0] == "mem" and e[1][2] == "base" and not e[2] and self.strip(e[1][1]) == ("id", "this", None):
            return ("int", "t.v.base")
        return super().eval(e)

    def fork(self):
        o = CI.__new__(CI)
        o.__dict__.update(self.__dict__)
        o.env = dict(self.env)
        o.asserts = list(self.asserts)
        o.untranslated = list(self.untranslated)
        o.lets = list(self.lets)
        return o


# (lean name, region, cpp, nparams, qualifier regex, extra binders)
TARGETS = [
    ("CAST_member", "viewD", "member_cast", 1, r"^(const&|&)$", "(sT2 off : Int)"),
    ("CAST_member_rv", "viewD", "member_cast", 1, r"^&&$", "(sT2 off : Int)"),
    ("CAST_reinterpret_aux", "viewD", "reinterpret_array_cast_aux_", 0, None, "(sT2 : Int)"),
    ("CAST_reinterpret", "viewD", "reinterpret_array_cast", 0, None, "(sT2 : Int)"),
    ("CAST_reinterpret_n", "viewD", "reinterpret_array_cast", 1, None, "(sT2 count : Int)"),
    ("CAST_S_reinterpret", "subD", "reinterpret_array_cast", 0, None, "(sT2 : Int)"),
    ("CAST_S_reinterpret_n", "subD", "reinterpret_array_cast", 1, None, "(sT2 count : Int)"),
    ("CAST1_member", "view1", "member_cast", 1, None, "(sT2 off : Int)"),
    ("CAST1_reinterpret", "view1", "reinterpret_array_cast", 0, None, "(sT2 : Int)"),
    ("CAST1_reinterpret_n", "view1", "reinterpret_array_cast", 1, None, "(sT2 n : Int)"),
]


def translate(lean_name, region, cpp, nparams, qrx, extra):
    src = GL.source(REL)
    lo, hi = GL.class_region(src, REGIONS[region])
    cands = []
    for f in GL.member_functions(src, lo, hi, cpp):
        try:
            if len(GL.param_names(f["params"])) == nparams and (qrx is None or re.search(qrx, f["quals"])):
                cands.append(f)
        except TranslateError:
            pass
    if not cands:
        raise TranslateError(f"{REL}:{cpp}/{nparams} {qrx}: no definition found")
    # an overload that merely forwards to the overload set of the same name with its own parameters (`&&` -> `&`) adds nothing
    def forwards(f):
        names = ",".join(n for n, _ in GL.param_names(f["params"]))
        body = re.sub(r"\s+", "", f["body"])
        return re.fullmatch(r"return(this->)?(template)?" + re.escape(cpp) + r"(<[^;]*>)?\(" + re.escape(names) + r"\);", body) is not None
    if len(cands) > 1 and any(not forwards(f) for f in cands):
        cands = [f for f in cands if not forwards(f)]
    out = []
    for fn in cands:
        it = CI(f"{REL}:{fn['line']}:{cpp}")
        for n, k in GL.param_names(fn["params"]):
            if k == "int" and n in ("count", "n"):
                it.env[n] = ("int", n)
        toks = GL.lex("{" + prep(fn["body"]) + "}", fn["line"])
        ast = GL.P(toks).block()
        r = it.run(ast[1])
        if r is None or r[0] != "view":
            raise TranslateError(f"{REL}:{fn['line']}:{cpp}: does not return a view")
        if it.untranslated:
            raise TranslateError(f"{REL}:{fn['line']}:{cpp}: assertion outside the vocabulary: {it.untranslated}")
        b = f"(t : TView) {extra}" + (" (isRaw : Bool)" if it.uses_raw else "")
        txt = f"def {lean_name} {b} : TView :=\n  ⟨sT2, {r[1]}, ⟨0, {L_render(r[2])}⟩⟩\n"
        txt += f"/-- the assertions of the body (static_assert first), in order -/\ndef {lean_name}_asserts {b} : Bool :=\n  " + (" &&\n  ".join(it.asserts) if it.asserts else "true") + "\n"
        out.append((txt, fn))
    if len(set(x[0] for x in out)) != 1:
        raise TranslateError(f"{REL}:{cpp}: the overloads at lines {[x[1]['line'] for x in out]} differ")
    fn = out[0][1]
    doc = f"/-- {REL}:{', '.join(str(x[1]['line']) for x in out)}  `{cpp}({' '.join(fn['params'].split())}) {fn['quals']}` -/"
    return doc + "\n" + out[0][0], dict(lean=lean_name, file=REL, lines=[x[1]["line"] for x in out], extents=[[x[1]["line"], x[1]["end_line"]] for x in out], cpp=cpp)


PRELUDE = """/-
  GENERATED by tools/gen_casts.py from $VERIF_REPO/include/boost/multi/array_ref.hpp — DO NOT EDIT.
  member_cast / reinterpret_array_cast over typed views; `MultiProofs/GenTieCast.lean` proves each equal to `MultiModel/Cast.lean`.
-/
import MultiModel.Cast
import MultiModel.Gen.LayoutGen

set_option linter.unusedVariables false

namespace Multi.Gen
open Multi

"""


def main():
    out, meta, errors = [PRELUDE], [], []
    for t in TARGETS:
        try:
            txt, m = translate(*t)
            out.append(txt)
            meta.append(m)
        except TranslateError as ex:
            errors.append(f"{t[0]}: {ex}")
            out.append(f"/-- NOT TRANSLATED: {str(ex)[:200].replace('-/', '- /')} -/\ndef {t[0]}_untranslated : Unit := ()\n")
    out.append("end Multi.Gen\n")
    text = "\n".join(out)
    old = open(OUT).read() if os.path.exists(OUT) else None
    if old != text:
        open(OUT, "w").write(text)
    json.dump({"functions": meta, "errors": errors}, open(OUTJ, "w"), indent=1)
    print(f"gen_casts: {len(meta)} functions translated, {len(errors)} errors; {'unchanged' if old == text else 'REWRITTEN'} {os.path.relpath(OUT, HERE)}")
    for e in errors:
        print("gen_casts: ERROR", e)
    return 2 if errors else 0


if __name__ == "__main__":
    sys.exit(main())
