"""Writes the C16 table (tools/gen_const_table.py) as lean/MultiModel/Gen/ConstTable.lean."""
import json

CHUNK = 100


def lean_str(s):
    return '"' + s.replace("\\", "\\\\").replace('"', '\\"') + '"'


def bits(v):
    n = 0
    for i, b in enumerate(v):
        if b:
            n |= 1 << i
    return n


def chunked_list(name, typ, items, per=CHUNK):
    """definitions name_0 .. name_k of <= per entries each, and name := name_0 ++ name_1 ++ ..."""
    out = []
    parts = [items[i:i + per] for i in range(0, len(items), per)] or [[]]
    for k, p in enumerate(parts):
        out.append(f"def {name}_{k} : {typ} := [" + ", ".join(p) + "]")
    out.append(f"def {name} : {typ} := " + " ++ ".join(f"{name}_{k}" for k in range(len(parts))))
    return "\n".join(out)


def mutable_spec_paths(tab):
    """The access paths the property names, as a grammar over (role, D) -- NOT read off the table.
    returns list of (root_state, [op names], label)"""
    ops = set(tab["ops"])
    maxD = tab["maxD"]
    V1 = ["sliced", "strided", "dropped", "taked", "reversed"]
    V2 = ["rotated", "unrotated", "transposed", "tilde"]          # D >= 2 only (deleted / not offered for D = 1)
    out = []
    for r in tab["roots"]:
        if r["const"]:
            continue
        D, role, s = r["D"], r["role"], r["state"]
        P = []
        if role == "iterator":
            P += [["deref"] + ["idx"] * (D - 1), ["idx"] + ["idx"] * (D - 1)]
            # (iterator::base() is a pointer for both constnesses; covered from the view roots)
        else:
            P += [["idx"] * D, ["call_i"] * D]
            for o in ("call_r", "call_all", "call_none"):
                P.append([o] + ["idx"] * D)
            for o in ("begin", "end"):
                P.append([o, "deref"] + ["idx"] * (D - 1))
                P.append([o, "idx"] + ["idx"] * (D - 1))
            P += [["elements", "idx"], ["elements", "begin", "deref"], ["elements", "front"], ["elements", "back"], ["elements", "end", "idx"]]
            P.append(["home"] + ["idx"] * D)
            P += [["front"] + ["idx"] * (D - 1), ["back"] + ["idx"] * (D - 1)]
            rvalue_root = r["label"].endswith("&&")      # a pointer into an expiring array is not an access path the property names
            if not rvalue_root:
                P += [["base"], ["base", "deref"], ["base", "idx"]]
            if role in ("array", "static_array", "array_ref") and not rvalue_root:
                P += [["data_elements"], ["data_elements", "idx"]]
            vops = V1 + (V2 if D >= 2 else [])
            for o in vops:
                P.append([o] + ["idx"] * D)
            if D >= 2:
                P += [["diagonal"] + ["idx"] * (D - 1), ["flatted"] + ["idx"] * (D - 1)]
            if D + 1 <= maxD:
                P += [["partitioned"] + ["idx"] * (D + 1), ["chunked"] + ["idx"] * (D + 1)]
            if r["label"].endswith("&") and not r["label"].endswith("&&") and role != "view":
                P.append(["move"] + ["idx"] * D)
            if role == "view" or role == "array_ref":
                P.append(["move"] + ["idx"] * D)
            # depth 3: two view-forming operations, then an element access
            for o1 in vops:
                for o2 in vops:
                    P.append([o1, o2] + ["idx"] * D)
                    P.append([o1, o2, "begin", "deref"] + ["idx"] * (D - 1))
                P.append([o1, "elements", "idx"])
                P.append([o1, "home"] + ["idx"] * D)
                P.append([o1, "call_r"] + ["idx"] * D)
        for p in P:
            if all(o in ops for o in p):
                out.append((s, p, r["label"]))
    # dedupe
    seen, res = set(), []
    for s, p, lab in out:
        k = (s, tuple(p))
        if k not in seen:
            seen.add(k)
            res.append((s, p, lab))
    return res


def emit(tab, path):
    n = len(tab["states"])
    opid = {o: i for i, o in enumerate(tab["ops"])}
    F = tab["facts"]
    adj = [[] for _ in range(n)]
    for s, o, t in tab["edges"]:
        adj[s].append((o, t))
    L = []
    L.append("/-")
    L.append("REGENERATED on every run by tools/gen_const_table.py (C16 translator = g++ against the current headers). DO NOT EDIT.")
    L.append(f"repo {tab['repo']}  tier {tab['tier']}  element {tab['elem']}  D <= {tab['maxD']}")
    L.append(f"{n} states, {len(tab['edges'])} edges, {len(tab['illformed'])} ill-formed (state, op) pairs, {len(tab['leaving'])} edges leaving the table (D > {tab['maxD']}),")
    L.append(f"|R| = {len(tab['R'])}, certificate {'exists' if tab['certificate_exists'] else 'DOES NOT EXIST (see counterexamples in the JSON table)'}")
    L.append("A state is the decltype of a C++ expression: `T` prvalue, `T&` lvalue, `T&&` xvalue.")
    L.append("-/")
    L.append("set_option maxRecDepth 8000")
    L.append("namespace Multi.Gen.ConstTable")
    L.append("")
    L.append(f"def nStates : Nat := {n}")
    L.append(f"def nOps : Nat := {len(tab['ops'])}")
    L.append(f"def maxD : Nat := {tab['maxD']}")
    L.append("/-- operation names; the C++ text of each operation is in tools/gen_const_table.py (OPS) -/")
    L.append("def opNames : List String := [" + ", ".join(lean_str(o) for o in tab["ops"]) + "]")
    L.append("")
    L.append(chunked_list("stateNames", "List String", [lean_str(st["name"]) for st in tab["states"]]))
    L.append("")
    L.append("/-- out-edges per state: row `s` lists `(op, target)` -/")
    # rows chunked so that no definition has more than CHUNK entries
    rows, cur, cnt, k = [], [], 0, 0
    defs = []
    for s in range(n):
        row = "[" + ", ".join(f"({o}, {t})" for o, t in adj[s]) + "]"
        if cur and cnt + len(adj[s]) > CHUNK:
            defs.append(cur)
            cur, cnt = [], 0
        cur.append(row)
        cnt += max(1, len(adj[s]))
    if cur or not defs:
        defs.append(cur)
    for k, d in enumerate(defs):
        L.append(f"def adj_{k} : List (List (Nat × Nat)) := [" + ",\n  ".join(d) + "]")
    L.append("def adj : List (List (Nat × Nat)) := " + " ++ ".join(f"adj_{k}" for k in range(len(defs))))
    L.append("")
    L.append("/-- fact vectors as bit masks (bit `s` = the fact holds for state `s`); every bit is a compile outcome -/")
    for lname, key in [("elemMutBits", "elem_mut"), ("acceptsAssignBits", "accepts_assign"), ("acceptsFillBits", "accepts_fill"),
                       ("acceptsSwapBits", "accepts_swap"), ("acceptsElementsAssignBits", "accepts_elements_assign"),
                       ("copyConstructibleBits", "copy_constructible"), ("namedViewBits", "named_view"), ("viewRefBits", "view_ref"),
                       ("rebindableBits", "rebindable")]:
        L.append(f"def {lname} : Nat := 0x{bits(F[key]):x}")
    L.append("")
    L.append("def constRoots : List Nat := [" + ", ".join(map(str, tab["const_roots"])) + "]")
    L.append("/-- const-qualified views made from any reachable view by `as_const()`, `std::as_const`, `auto const&` -/")
    L.append(chunked_list("derivedConstRoots", "List Nat", list(map(str, tab["derived_const_roots"]))))
    L.append("def mutRoots : List Nat := [" + ", ".join(map(str, tab["mut_roots"])) + "]")
    L.append("")
    L.append("/-- certificate computed by the generator: the states reachable from the const roots -/")
    L.append(f"def rBits : Nat := 0x{bits([i in set(tab['R']) for i in range(n)]):x}")
    L.append(f"def rSize : Nat := {len(tab['R'])}")
    L.append("")
    L.append("/-- the access paths named in the property, from the mutable roots: (root, ops) -/")
    paths = tab["mutable_spec_paths"]
    L.append(chunked_list("mutablePaths", "List (Nat × List Nat)", [f"({s}, [{', '.join(str(opid[o]) for o in p)}])" for s, p, _ in paths], per=50))
    L.append("")
    L.append("end Multi.Gen.ConstTable")
    open(path, "w").write("\n".join(L) + "\n")


if __name__ == "__main__":
    import sys
    emit(json.load(open(sys.argv[1])), sys.argv[2])
