#!/usr/bin/env python3
"""C16 translator: the C++ compiler builds the const-ness transition system of boost-multi.

States  = (C++ type, value category), written as the decltype of an expression (T prvalue, T& lvalue, T&& xvalue).
Edges   = (state, op) -> decltype(op(std::declval<state>())), obtained by compiling probe translation units against the
          CURRENT headers (env VERIF_REPO, default /repo) and running them (they only print __PRETTY_FUNCTION__ names).
          Every well-formed edge is also ODR-instantiated (never executed), so member functions whose *body* does not
          compile for that state are recorded as ill-formed edges, exactly like in a real program.
Facts   = compile outcomes per state (assignment / fill / swap / elements()= / copy construction), by trial compilation.
Output  = lean/MultiModel/Gen/ConstTable.lean  and  .build/C16/const_table.json   (nothing is cached across runs).

usage: gen_const_table.py [--tier quick|thorough] [--json PATH] [--lean PATH] [--no-lean] [--work DIR]
env:   VERIF_REPO (default /repo), VERIF_TIER (default quick)
"""
import sys, os, re, json, subprocess, time, shutil, collections, concurrent.futures as cf

HERE = os.path.dirname(os.path.dirname(os.path.abspath(__file__)))
NCPU = min(16, os.cpu_count() or 4)

# ---------------------------------------------------------------------------------------------- op alphabet
# name, C++ expression over X (= the state, with its value category), tier, pretty suffix/prefix for path printing
# pretty: "%s" is replaced by the expression so far
OPS = [
    ("idx",        "X[0]",                 "q", "%s[0]"),
    ("call_i",     "X(0)",                 "q", "%s(0)"),
    ("call_r",     "X({0, 2})",            "q", "%s({0, 2})"),
    ("call_all",   "X(multi::ALL)",        "q", "%s(multi::ALL)"),
    ("call_none",  "X()",                  "q", "%s()"),
    ("begin",      "X.begin()",            "q", "%s.begin()"),
    ("end",        "X.end()",              "q", "%s.end()"),
    ("cbegin",     "X.cbegin()",           "q", "%s.cbegin()"),
    ("cend",       "X.cend()",             "t", "%s.cend()"),
    ("deref",      "*X",                   "q", "(*%s)"),
    ("arrow",      "X.operator->()",       "t", "%s.operator->()"),
    ("elements",   "X.elements()",         "q", "%s.elements()"),
    ("home",       "X.home()",             "q", "%s.home()"),
    ("front",      "X.front()",            "q", "%s.front()"),
    ("back",       "X.back()",             "q", "%s.back()"),
    ("base",       "X.base()",             "q", "%s.base()"),
    ("data_elements", "X.data_elements()", "q", "%s.data_elements()"),
    ("sliced",     "X.sliced(0, 2)",       "q", "%s.sliced(0, 2)"),
    ("strided",    "X.strided(2)",         "q", "%s.strided(2)"),
    ("dropped",    "X.dropped(1)",         "q", "%s.dropped(1)"),
    ("taked",      "X.taked(2)",           "q", "%s.taked(2)"),
    ("rotated",    "X.rotated()",          "q", "%s.rotated()"),
    ("unrotated",  "X.unrotated()",        "q", "%s.unrotated()"),
    ("transposed", "X.transposed()",       "q", "%s.transposed()"),
    ("tilde",      "~c16::obj(X)",                   "q", "(~%s)"),
    ("reversed",   "X.reversed()",         "q", "%s.reversed()"),
    ("diagonal",   "X.diagonal()",         "q", "%s.diagonal()"),
    ("partitioned", "X.partitioned(2)",    "q", "%s.partitioned(2)"),
    ("chunked",    "X.chunked(2)",         "q", "%s.chunked(2)"),
    ("flatted",    "X.flatted()",          "q", "%s.flatted()"),
    ("as_const",   "X.as_const()",         "q", "%s.as_const()"),
    ("move",       "std::move(c16::lvalue<S>(X))",         "q", "std::move(%s)"),
    # thorough only
    ("celements",  "X.celements()",        "t", "%s.celements()"),
    ("const_elements", "X.const_elements()", "t", "%s.const_elements()"),
    ("blocked",    "X.blocked(0, 2)",      "q", "%s.blocked(0, 2)"),
    ("sliced3",    "X.sliced(0, 2, 1)",    "t", "%s.sliced(0, 2, 1)"),
    ("reindexed",  "X.reindexed(1)",       "q", "%s.reindexed(1)"),
    ("reindexed2", "X.reindexed(1, 1)",    "t", "%s.reindexed(1, 1)"),
    ("stenciled",  "X.stenciled({0, 2})",  "t", "%s.stenciled({0, 2})"),
    ("halved",     "X.halved()",           "t", "%s.halved()"),
    ("call_ii",    "X(0, 0)",              "q", "%s(0, 0)"),
    ("call_ri",    "X({0, 2}, 0)",         "q", "%s({0, 2}, 0)"),
    ("call_ir",    "X(0, {0, 2})",         "t", "%s(0, {0, 2})"),
    ("call_rr",    "X({0, 2}, {0, 2})",    "t", "%s({0, 2}, {0, 2})"),
    ("call_alli",  "X(multi::ALL, 0)",     "t", "%s(multi::ALL, 0)"),
    ("call_iii",   "X(0, 0, 0)",           "t", "%s(0, 0, 0)"),
    ("addr",       "&c16::view_or_elem(X)",                   "t", "(&%s)"),
    ("plus1",      "c16::obj(X) + 1",                "t", "(%s + 1)"),
    ("origin",     "X.origin()",           "t", "%s.origin()"),
    ("data",       "X.data()",             "t", "%s.data()"),
    ("std_as_const", "std::as_const(c16::lvalue<S>(X))",   "t", "std::as_const(%s)"),
    # naming an expression: `auto&& v = <expr>;` then `v` is an lvalue; `auto const& v = <expr>;` a const lvalue
    ("bind_fwd",   "static_cast<std::remove_reference_t<S>&>(c16::obj(x))",       "t", "BIND(%s)"),
    ("bind_const", "static_cast<std::remove_reference_t<S> const&>(c16::obj(x))", "t", "CBIND(%s)"),
]
OP_PRETTY = {o[0]: o[3] for o in OPS}
# ops that *make* something const on purpose (excluded from the "mutable paths must end writable" obligation)
CONST_MAKING = {"cbegin", "cend", "as_const", "celements", "const_elements", "std_as_const", "bind_const"}

# facts: name, statement over X, Y (two operands of the state's type and value category), CY (const lvalue), LY (lvalue)
FACTS = [
    ("assign_same",   "X = Y"),
    ("assign_const",  "X = CY"),
    ("assign_int",    "X = 5"),
    ("assign_array",  "X = std::declval<multi::array<int, std::decay_t<S>::rank_v> const&>()"),
    ("fill",          "X.fill(0)"),
    ("swap_adl",      "c16::adl_swap(X, Y)"),
    ("swap_mem",      "X.swap(Y)"),
    ("swap_mem_lv",   "X.swap(LY)"),
    ("elements_assign",       "X.elements() = Y.elements()"),
    ("elements_assign_const", "X.elements() = CY.elements()"),
    ("copy_construct", "c16::copy_into_named(X)"),
]
ASSIGN_FACTS = ["assign_same", "assign_const", "assign_int", "assign_array"]
SWAP_FACTS = ["swap_adl", "swap_mem", "swap_mem_lv"]
ELASSIGN_FACTS = ["elements_assign", "elements_assign_const"]

PRELUDE = r"""
#include <boost/multi/array.hpp>
#include <cstdio>
#include <type_traits>
#include <utility>
#include <memory>
#include <algorithm>
#include <cstdlib>
namespace multi = boost::multi;
template<class T> constexpr const char* c16_tn() { return __PRETTY_FUNCTION__; }
extern volatile int c16_never;
template<class S> std::remove_reference_t<S>* c16_nullp() { return nullptr; }
#define X  static_cast<S&&>(x)
#define Y  static_cast<S&&>(y)
#define CY static_cast<std::remove_reference_t<S> const&>(y)
#define LY static_cast<std::remove_reference_t<S>&>(y)
namespace c16 {
  using std::swap;
  // guards: `~x`, `x + 1`, `auto&& v = x` are only view/handle operations (on a prvalue element they make a temporary copy);
  // std::move / std::as_const are applied to named objects (lvalues) only
  template<class A, std::enable_if_t<!std::is_arithmetic_v<std::remove_cv_t<std::remove_reference_t<A>>>, int> = 0> constexpr auto obj(A&& a) -> A&& { return static_cast<A&&>(a); }
  template<class S, class A, std::enable_if_t<std::is_lvalue_reference_v<S>, int> = 0> constexpr auto lvalue(A& a) -> A& { return a; }
  template<class A, class B> constexpr auto adl_swap(A&& a, B&& b) -> decltype((void)swap(std::forward<A>(a), std::forward<B>(b))) { swap(std::forward<A>(a), std::forward<B>(b)); }
  // `auto w = <named view>;`  (std::decay_t<S> w(expr))
  template<class A> constexpr auto copy_into_named(A&& a) -> decltype((void)std::decay_t<A>(std::forward<A>(a))) { std::decay_t<A> w(std::forward<A>(a)); (void)w; }

  template<class T, multi::dimensionality_type D, class P, class L> std::true_type  is_view_aux(multi::const_subarray<T, D, P, L> const&);
  std::false_type is_view_aux(...);
  template<class T, class = void> struct is_view : std::false_type {};
  template<class T> struct is_view<T, std::enable_if_t<std::is_class_v<T>>> : decltype(is_view_aux(std::declval<T const&>())) {};
  template<class T, multi::dimensionality_type D, class A> std::true_type  is_owning_aux(multi::static_array<T, D, A> const&);
  std::false_type is_owning_aux(...);
  template<class T, class = void> struct has_alloc : std::false_type {};   // "owns its elements": static_array or derived (array)
  template<class T> struct has_alloc<T, std::enable_if_t<std::is_class_v<T>>> : decltype(is_owning_aux(std::declval<T const&>())) {};
  // `&x` is followed for views (subarray_ptr) and element references only; the address of a handle is a pointer tower
  template<class A, std::enable_if_t<is_view<std::remove_cv_t<std::remove_reference_t<A>>>::value || std::is_same_v<std::remove_cv_t<std::remove_reference_t<A>>, C16_ELEM>, int> = 0>
  constexpr auto view_or_elem(A&& a) -> A&& { return static_cast<A&&>(a); }
  template<class T, class = void> struct has_begin : std::false_type {};
  template<class T> struct has_begin<T, std::void_t<decltype(std::declval<T const&>().begin())>> : std::true_type {};
  template<class T, class = void> struct has_deref : std::false_type {};
  template<class T> struct has_deref<T, std::void_t<decltype(*std::declval<T const&>())>> : std::true_type {};
  template<class T, class = void> struct has_index : std::false_type {};
  template<class T> struct has_index<T, std::void_t<decltype(std::declval<T const&>()[0])>> : std::true_type {};
  template<class T, class = void> struct rank_of { static constexpr long value = -1; };
  template<class T> struct rank_of<T, std::void_t<decltype(T::rank_v)>> { static constexpr long value = static_cast<long>(T::rank_v); };

  // kind of a state, from what the type can do (never from its name)
  template<class S> constexpr const char* kind() {
    using T = std::remove_cv_t<std::remove_reference_t<S>>;
    if constexpr (std::is_same_v<T, C16_ELEM>) return "elem";
    else if constexpr (std::is_arithmetic_v<T> || std::is_void_v<T>) return "other";
    else if constexpr (std::is_pointer_v<T>) return "handle";
    else if constexpr (is_view<T>::value) { if constexpr (has_alloc<T>::value) return "owning"; else return "view"; }
    else if constexpr (has_begin<T>::value) return "range";
    else if constexpr (has_deref<T>::value || has_index<T>::value) return "handle";
    else return "other";
  }
  // modifiable element reference / non-const element pointer (type identities decided by the compiler)
  template<class S> constexpr bool elem_mut() {
    using T = std::remove_cv_t<std::remove_reference_t<S>>;
    return std::is_same_v<S, C16_ELEM&> || std::is_same_v<S, C16_ELEM&&> || std::is_same_v<T, C16_ELEM*> C16_EXTRA_MUT_PTR;
  }
  template<class S> constexpr bool elem_like() {
    using T = std::remove_cv_t<std::remove_reference_t<S>>;
    return std::is_same_v<T, C16_ELEM>;
  }
  template<class Op, class S, class = void> struct det : std::false_type {};
  template<class Op, class S> struct det<Op, S, std::void_t<decltype(Op::f(std::declval<S>()))>> : std::true_type {};
  template<class Op, class S, class = void> struct det2 : std::false_type {};
  template<class Op, class S> struct det2<Op, S, std::void_t<decltype(Op::f(std::declval<S>(), std::declval<S>()))>> : std::true_type {};

  template<class Op, class S> void probe(const char* name) {
    if constexpr (det<Op, S>::value) {
      using R = decltype(Op::f(std::declval<S>()));
      if (c16_never) { (void)Op::f(static_cast<S&&>(*c16_nullp<S>())); }
      std::printf("edge\t%s\t%ld\t%s\n", name, rank_of<std::remove_cv_t<std::remove_reference_t<R>>>::value, c16_tn<R>());
    } else { std::printf("edge\t%s\t-\t-\n", name); }
  }
  template<class Op, class S> void fact(const char* name) {
    if constexpr (det2<Op, S>::value) {
      if (c16_never) { Op::f(static_cast<S&&>(*c16_nullp<S>()), static_cast<S&&>(*c16_nullp<S>())); }
      std::printf("fact\t%s\t1\n", name);
    } else { std::printf("fact\t%s\t0\n", name); }
  }
  template<class S> void header() {
    using T = std::remove_cv_t<std::remove_reference_t<S>>;
    std::printf("name\t%s\n", c16_tn<S>());
    std::printf("kind\t%s\t%ld\t%d\t%d\n", kind<S>(), rank_of<T>::value, (int)elem_mut<S>(), (int)elem_like<S>());
  }
}
#define C16_OP(NAME, ...) struct op_##NAME { template<class S> static constexpr auto f(S&& x) -> decltype(__VA_ARGS__) { return __VA_ARGS__; } };
#define C16_FACT(NAME, ...) struct fa_##NAME { template<class S> static constexpr auto f(S&& x, S&& y) -> decltype((void)(__VA_ARGS__)) { (void)(__VA_ARGS__); } };
"""


def log(*a):
    print("[gen_const_table]", *a, file=sys.stderr, flush=True)


class Gen:
    def __init__(self, repo, tier, work, elem="int", ptr_mode="raw"):
        self.repo, self.tier, self.work = repo, tier, work
        self.elem = elem
        self.ptr_mode = ptr_mode
        self.maxD = 3 if tier == "quick" else 4
        self.ops = [o for o in OPS if tier == "thorough" or o[2] == "q"]
        self.compiles = 0
        self.compile_s = 0.0
        shutil.rmtree(work, ignore_errors=True)
        os.makedirs(work)
        self.flags = ["g++", "-std=c++17", "-w", "-O0", "-ftemplate-backtrace-limit=0", f"-I{repo}/include", f"-I{work}"]

    # ------------------------------------------------------------------ compile helpers
    def build_prelude(self):
        src = PRELUDE
        for name, expr, _, _ in OPS:
            src += f"C16_OP({name}, {expr})\n"
        for name, expr in FACTS:
            src += f"C16_FACT({name}, {expr})\n"
        extra = ""
        src = src.replace("C16_EXTRA_MUT_PTR", extra).replace("C16_ELEM", self.elem)
        open(os.path.join(self.work, "c16_pre.hpp"), "w").write("#pragma once\n" + src)
        t = time.time()
        p = subprocess.run(self.flags + ["-x", "c++-header", os.path.join(self.work, "c16_pre.hpp"), "-o", os.path.join(self.work, "c16_pre.hpp.gch")],
                           stdout=subprocess.PIPE, stderr=subprocess.STDOUT, text=True)
        if p.returncode != 0:
            raise RuntimeError("prelude does not compile against %s:\n%s" % (self.repo, p.stdout[-3000:]))
        log("prelude+PCH %.1fs" % (time.time() - t))

    def compile_run(self, tag, body, run=True):
        """compile (and run) one TU; returns (ok, stdout_of_program_or_compiler_log)"""
        src = os.path.join(self.work, tag + ".cpp")
        exe = os.path.join(self.work, tag + ".x")
        open(src, "w").write(body)
        t = time.time()
        if run:
            p = subprocess.run(self.flags + ["-include", "c16_pre.hpp", src, "-o", exe], stdout=subprocess.PIPE, stderr=subprocess.STDOUT, text=True, errors="replace")
        else:
            p = subprocess.run(self.flags + ["-include", "c16_pre.hpp", "-fsyntax-only", src], stdout=subprocess.PIPE, stderr=subprocess.STDOUT, text=True, errors="replace")
        self.compiles += 1
        self.compile_s += time.time() - t
        if p.returncode != 0:
            return False, p.stdout
        if not run:
            return True, ""
        q = subprocess.run([exe], stdout=subprocess.PIPE, stderr=subprocess.STDOUT, text=True, errors="replace", timeout=60)
        os.unlink(exe)
        if q.returncode != 0:
            return False, "probe program failed: " + q.stdout[-500:]
        return True, q.stdout

    # ------------------------------------------------------------------ one state
    def chain_src(self, st):
        """typedef chain defining the state's type from its root along the first discovered path"""
        lines = []
        chain = []
        s = st
        while s is not None:
            chain.append(s)
            s = s["parent"]
        chain.reverse()
        for k, s in enumerate(chain):
            if s["parent"] is None:
                lines.append(f"using C{k} = {s['root_type']};")
            else:
                lines.append(f"using C{k} = decltype(op_{s['via']}::f(std::declval<C{k-1}>()));")
        lines.append(f"using ST = C{len(chain)-1};")
        return "\n".join(lines) + "\n"

    def tu(self, st, probes):
        """probes: list of ('op'|'fact', name); one probe per source line"""
        head = self.chain_src(st) + "volatile int c16_never = 0;\nint main() {\n  c16::header<ST>();\n"
        nhead = head.count("\n")
        body = ""
        for kind, name in probes:
            if kind == "op":
                body += f"  c16::probe<op_{name}, ST>(\"{name}\");\n"
            else:
                body += f"  c16::fact<fa_{name}, ST>(\"{name}\");\n"
        return head + body + "  return 0;\n}\n", nhead

    def rebind_probe(self, st):
        """run-time probe for a non-owning view state whose assignment compiles: is `v = w` element-wise (layout and base of v unchanged,
        elements copied), and does assigning a view of different extents trip the library's assertion instead of rebinding/resizing v?"""
        variant = "static_cast<ST&&>" if st["facts"].get("assign_same") else "static_cast<V const&>"
        root, ops = path_of(st)
        lab = root.get("label", "")
        RD0 = int(re.search(r"(\d)", lab).group(1)) if re.search(r"(\d)", lab) else st["rank"]
        if lab.startswith("array_ref"):
            rootobj, r0 = "multi::array_ref<int, RD0> robj(arr.data_elements(), arr.extensions());", "robj"
        elif lab.startswith("view"):
            rootobj, r0 = "auto&& robj = arr({0, 2});", "robj"
        elif lab.startswith("array"):
            rootobj, r0 = "", "arr"
        else:
            rootobj, r0 = None, None
        tag = "rb%04d" % st["id"]
        cpp, exe = os.path.join(self.work, tag + ".cpp"), os.path.join(self.work, tag + ".x")
        for mode in ("ctor", "walk"):
            if mode == "ctor":
                RD, make, ro, walk = st["rank"], "c16_make<V>", "", "0"
            else:
                if rootobj is None:
                    break
                walk = f"static_cast<C0&&>({r0})"
                wops = list(ops)
                while wops and wops[-1] in ("bind_fwd", "bind_const", "move", "std_as_const"):   # naming / casting the view does not change the object
                    wops.pop()
                for o in wops:
                    walk = f"op_{o}::f({walk})"
                RD, make, ro = RD0, "c16_walk", rootobj
            src = self.chain_src(st) + (REBIND_SRC.replace("RHS", variant).replace("ROOTOBJ", ro).replace("WALK", walk).replace("MAKE", make)
                                        .replace("RD0", str(RD)).replace("EXT3", ", ".join(["5"] * RD)).replace("EXT4", ", ".join(["6"] * RD)))
            open(cpp, "w").write(src)
            p = subprocess.run(self.flags + ["-include", "c16_pre.hpp", cpp, "-o", exe], stdout=subprocess.PIPE, stderr=subprocess.STDOUT, text=True, errors="replace")
            self.compiles += 1
            if p.returncode == 0:
                break
        if p.returncode != 0:
            return {"built": False, "log": first_error(p.stdout), "rebindable": None}
        a = subprocess.run([exe], stdout=subprocess.PIPE, stderr=subprocess.STDOUT, text=True, errors="replace", timeout=60)
        b = subprocess.run([exe, "diff"], stdout=subprocess.PIPE, stderr=subprocess.STDOUT, text=True, errors="replace", timeout=60)
        os.unlink(exe)
        same_ok = a.returncode == 0 and "layout_same=1 base_same=1 n_same=1 elementwise=1" in a.stdout
        if b.returncode != 0:
            diff = "asserts" if "diff-returned" not in b.stdout else "failed-after-return"
        else:
            diff = "returns-layout-unchanged" if "layout_same=1 base_same=1" in b.stdout else "REBOUND"
        return {"built": True, "same": a.stdout.strip()[-200:], "same_rc": a.returncode, "diff": diff, "diff_rc": b.returncode,
                "rebindable": (not same_ok) or diff in ("REBOUND", "failed-after-return")}

    def explore_state(self, st):
        """returns dict(name, kind, rank, elem_mut, edges{op: (rank,type)|None|'ILL'}, facts{name: bool}, ill{probe: msg})"""
        probes = [("op", o[0]) for o in self.ops] + [("fact", f[0]) for f in FACTS]
        ill = {}
        tag = "s%04d" % st["id"]
        attempt = 0
        while True:
            attempt += 1
            src, nhead = self.tu(st, probes)
            ok, out = self.compile_run(f"{tag}_{attempt}", src)
            if ok:
                break
            # blame probe lines named by the compiler
            fn = f"{tag}_{attempt}.cpp"
            blamed = set()
            for m in re.finditer(re.escape(fn) + r":(\d+):\d+:", out):
                ln = int(m.group(1)) - nhead - 1
                if 0 <= ln < len(probes):
                    blamed.add(ln)
            # link errors (declared-but-undefined members) name the probe function instead of a line
            for m in re.finditer(r"\b(op|fa)_(\w+)::f<", out):
                key = ("op" if m.group(1) == "op" else "fact", m.group(2))
                if key in probes:
                    blamed.add(probes.index(key))
            cands = sorted(blamed) if blamed else list(range(len(probes)))
            if attempt > 12:
                cands = list(range(len(probes)))
            # confirm each candidate in its own tiny TU
            bad = []
            for i in cands:
                s1, _ = self.tu(st, [probes[i]])
                ok1, out1 = self.compile_run(f"{tag}_{attempt}_p{i}", s1)
                if not ok1:
                    bad.append(i)
                    ill[probes[i]] = first_error(out1)
            if not bad:
                if not blamed:
                    raise RuntimeError(f"state {st['id']} ({st.get('name')}): TU fails but every probe compiles alone:\n{out[-2000:]}")
                # blamed lines compile alone: try everything individually
                for i in range(len(probes)):
                    if i in cands:
                        continue
                    s1, _ = self.tu(st, [probes[i]])
                    ok1, out1 = self.compile_run(f"{tag}_{attempt}_p{i}", s1)
                    if not ok1:
                        bad.append(i)
                        errs = [l for l in out1.split("\n") if " error: " in l]
                        ill[probes[i]] = (errs[0].split(" error: ", 1)[1] if errs else out1[-300:])[:400]
                if not bad:
                    raise RuntimeError(f"state {st['id']}: TU fails but every probe compiles alone:\n{out[-2000:]}")
            probes = [p for i, p in enumerate(probes) if i not in set(bad)]
        res = {"edges": {}, "facts": {}, "ill": {f"{k}:{n}": msg for (k, n), msg in ill.items()}}
        for l in out.split("\n"):
            w = l.split("\t")
            if w[0] == "name":
                res["name"] = clean_name(w[1])
            elif w[0] == "kind":
                res["kind"], res["rank"], res["elem_mut"], res["elem_like"] = w[1], int(w[2]), w[3] == "1", w[4] == "1"
            elif w[0] == "edge":
                res["edges"][w[1]] = None if w[3] == "-" else (int(w[2]), clean_name(w[3]))
            elif w[0] == "fact":
                res["facts"][w[1]] = w[2] == "1"
        for (k, n) in ill:
            if k == "op":
                res["edges"][n] = "ILL"
            else:
                res["facts"][n] = False
        return res


REBIND_SRC = r"""
using V = std::remove_cv_t<std::remove_reference_t<ST>>;
constexpr multi::dimensionality_type RD = V::rank_v;
template<class VV, class Arr> VV c16_make(Arr& arr) {
  if constexpr (std::is_constructible_v<VV, typename VV::layout_type, typename VV::element_ptr>) return VV(typename VV::layout_type(arr.extensions()), typename VV::element_ptr(arr.data_elements()));
  else return VV(typename VV::element_ptr(arr.data_elements()), arr.extensions());
}
// fallback when V has no public (layout, pointer) constructor: walk the state's own access path from a real root object
template<class Arr> decltype(auto) c16_walk(Arr& arr) {
  ROOTOBJ
  return WALK;
}
volatile int c16_never = 0;
int main(int argc, char**) {
  multi::array<int, RD0> A(multi::extensions_t<RD0>{EXT3}, 1), B(multi::extensions_t<RD0>{EXT3}, 2), C(multi::extensions_t<RD0>{EXT4}, 3);
  auto&& v = MAKE(A); auto&& w = MAKE(B); auto&& u = MAKE(C);
  static_assert(std::is_same_v<std::remove_cv_t<std::remove_reference_t<decltype(v)>>, V>, "the probe object has the state's view type");
  auto l0 = v.layout(); auto p0 = v.base(); auto n0 = v.num_elements();
  static_assert(std::is_same_v<std::remove_cv_t<std::remove_reference_t<decltype(static_cast<ST&&>(v) = RHS(w))>>, V>, "assignment returns the view itself");
  if (argc > 1) {
    std::puts("diff-begin"); std::fflush(stdout);
    static_cast<ST&&>(v) = RHS(u);
    std::printf("diff-returned layout_same=%d base_same=%d\n", (int)(v.layout() == l0), (int)(v.base() == p0));
    return 0;
  }
  static_cast<ST&&>(v) = RHS(w);
  // element-wise: exactly v's elements of A now hold w's value (2), nothing else of A changed, B untouched
  bool copied = std::count(A.elements().begin(), A.elements().end(), 2) == n0 && std::count(A.elements().begin(), A.elements().end(), 1) == A.num_elements() - n0
             && std::count(B.elements().begin(), B.elements().end(), 2) == B.num_elements() && n0 > 0;
  std::printf("same layout_same=%d base_same=%d n_same=%d elementwise=%d sizeof=%zu\n", (int)(v.layout() == l0), (int)(v.base() == p0), (int)(v.num_elements() == n0), (int)copied, sizeof(V));
  return 0;
}
"""


def first_error(out):
    errs = [l for l in out.split("\n") if " error: " in l]
    if errs:
        return errs[0].split(" error: ", 1)[1][:400]
    und = [l for l in out.split("\n") if "undefined reference" in l]
    if und:
        return "link: " + und[0].split("undefined reference", 1)[1][:380]
    return out[-300:]


def clean_name(pf):
    m = re.search(r"\[with T = (.*)\]$", pf.strip())
    return m.group(1) if m else pf.strip()


def roots_for(tier, elem="int"):
    """(label, C++ type expression, const?, D, role)"""
    R = []
    Ds = [1, 2, 3] if tier == "quick" else [1, 2, 3, 4]
    for D in Ds:
        A = f"multi::array<{elem}, {D}>"
        SA = f"multi::static_array<{elem}, {D}>"
        AR = f"multi::array_ref<{elem}, {D}>"
        V = f"decltype(std::declval<{A}&>()({{0, 2}}))"
        R += [
            (f"array{D}&", f"{A}&", False, D, "array"),
            (f"array{D} const&", f"{A} const&", True, D, "array"),
            (f"array{D}&&", f"{A}&&", False, D, "array"),
            (f"static_array{D}&", f"{SA}&", False, D, "static_array"),
            (f"static_array{D} const&", f"{SA} const&", True, D, "static_array"),
            (f"array_ref{D}&", f"{AR}&", False, D, "array_ref"),
            (f"array_ref{D} const&", f"{AR} const&", True, D, "array_ref"),
            (f"view{D}& (auto&& v = A({{0,2}}))", f"std::remove_reference_t<{V}>&", False, D, "view"),
            (f"view{D} const& (auto const& v = A({{0,2}}))", f"std::remove_reference_t<{V}> const&", True, D, "view"),
            (f"const_iterator{D}", f"typename {A}::const_iterator", True, D, "const_iterator"),
            (f"iterator{D}", f"typename {A}::iterator", False, D, "iterator"),
        ]
    return R


def bfs(gen, roots):
    states = []          # dicts
    by_name = {}
    t0 = time.time()

    def explore_many(sts):
        with cf.ThreadPoolExecutor(max_workers=NCPU) as ex:
            return list(ex.map(gen.explore_state, sts))

    # roots
    pend = []
    for lab, typ, is_const, D, role in roots:
        pend.append({"id": len(pend), "parent": None, "via": None, "root_type": typ, "label": lab})
    res = explore_many(pend)
    root_ids = []
    frontier = []
    for (lab, typ, is_const, D, role), st, r in zip(roots, pend, res):
        nm = r["name"]
        if nm not in by_name:
            st = dict(st, id=len(states), depth=0, **r)
            st["root_labels"] = [lab]
            by_name[nm] = st
            states.append(st)
            frontier.append(st)
        else:
            by_name[nm]["root_labels"].append(lab)
        root_ids.append((lab, by_name[nm]["id"], is_const, D, role))
    rnd = 0
    leaving = []
    while frontier:
        rnd += 1
        new = []
        for st in frontier:
            for op, e in st["edges"].items():
                if e is None or e == "ILL":
                    continue
                rk, nm = e
                if rk > gen.maxD:
                    continue
                if nm not in by_name:
                    ns = {"id": len(states), "parent": st, "via": op, "depth": st["depth"] + 1, "name": nm}
                    by_name[nm] = ns
                    states.append(ns)
                    new.append(ns)
        log(f"round {rnd}: {len(frontier)} explored, {len(new)} new states, total {len(states)}, {gen.compiles} compiles, {time.time()-t0:.0f}s")
        res = explore_many(new)
        for ns, r in zip(new, res):
            if r["name"] != ns["name"]:
                # g++ may print one type in two ways (default template arguments elided or not); the chain typedef IS the edge's
                # decltype, so both names denote this state
                by_name.setdefault(r["name"], ns)
                r = dict(r, name=ns["name"], printed_as=r["name"])
            ns.update(r)
        frontier = new
    return states, by_name, root_ids


def path_of(st):
    ops = []
    s = st
    while s["parent"] is not None:
        ops.append(s["via"])
        s = s["parent"]
    ops.reverse()
    return s, ops


def pretty_path(root_expr, ops):
    e = root_expr
    for o in ops:
        e = OP_PRETTY[o] % e
    return e


def load_open_findings():
    """open C16 findings (known_findings.json and findings/C16.json): the generator cuts the edges they name out of the table, so
    that the theorems are stated -- visibly -- about the table minus the known holes; the hook re-reports them as KNOWN-FINDING"""
    fs = []
    for path in (os.path.join(HERE, "known_findings.json"), os.path.join(HERE, "findings", "C16.json")):
        if os.path.exists(path):
            fs += [f for f in json.load(open(path)).get("findings", []) if f.get("property") == "C16" and f.get("status") == "open"]
    return fs


def edge_matches(f, src_name, op, dst_name):
    m = f.get("match", {})
    if m.get("class") != "hole":
        return False
    ops = m.get("op")
    ops = [ops] if isinstance(ops, str) else ops
    return op in ops and re.search(m["src"], src_name) is not None and re.search(m.get("dst", "."), dst_name) is not None


def path_matches(f, root_label, ops):
    """over-const findings: a mutable access path that the library (by omission) makes read-only"""
    m = f.get("match", {})
    if m.get("class") != "overconst":
        return False
    if "root" in m and re.search(m["root"], root_label) is None:
        return False
    seqs = m.get("contains", [])
    for seq in seqs:
        seq = [seq] if isinstance(seq, str) else seq
        for i in range(len(ops) - len(seq) + 1):
            if ops[i:i + len(seq)] == seq:
                return True
    return False


def build_table(gen, states, by_name, root_ids, findings):
    import gen_const_lean
    opnames = [o[0] for o in gen.ops]
    opid = {n: i for i, n in enumerate(opnames)}
    edges, illformed, leaving, absent, known_holes = [], [], [], 0, []
    for st in states:
        for op in opnames:
            e = st["edges"].get(op)
            if e is None:
                absent += 1
            elif e == "ILL":
                illformed.append([st["id"], opid[op], st["ill"].get("op:" + op, "")])
            else:
                rk, nm = e
                if rk > gen.maxD:
                    leaving.append([st["id"], opid[op], nm])
                    continue
                hit = [f for f in findings if edge_matches(f, st["name"], op, nm)]
                if hit:
                    known_holes.append([st["id"], opid[op], by_name[nm]["id"], hit[0]["key"]])
                else:
                    edges.append([st["id"], opid[op], by_name[nm]["id"]])
    facts = {}
    n = len(states)

    def countable(st):   # assignment/swap of a handle (iterator, cursor, pointer) rebinds the handle, it is not an element write
        return st["kind"] in ("elem", "view", "owning", "range", "other")
    facts["elem_mut"] = [bool(st["elem_mut"]) for st in states]
    facts["accepts_assign"] = [countable(st) and any(st["facts"].get(f) for f in ASSIGN_FACTS) for st in states]
    facts["accepts_fill"] = [bool(st["facts"].get("fill")) for st in states]
    facts["accepts_swap"] = [countable(st) and any(st["facts"].get(f) for f in SWAP_FACTS) for st in states]
    facts["accepts_elements_assign"] = [any(st["facts"].get(f) for f in ELASSIGN_FACTS) for st in states]
    facts["copy_constructible"] = [bool(st["facts"].get("copy_construct")) for st in states]
    facts["handle_assignable"] = [(not countable(st)) and any(st["facts"].get(f) for f in ASSIGN_FACTS) for st in states]
    # named (lvalue) non-owning views: `auto w = v;` must not compile
    facts["named_view"] = [st["kind"] == "view" and st["name"].endswith("&") and not st["name"].endswith("&&") for st in states]
    facts["is_view"] = [st["kind"] in ("view", "owning") for st in states]
    facts["view_ref"] = [st["kind"] == "view" for st in states]          # views and array references (non-owning)
    # rebinding: run-time probe for every non-owning view state whose assignment compiles
    todo = [st for st in states if st["kind"] == "view" and any(st["facts"].get(f) for f in ("assign_same", "assign_const"))]
    with cf.ThreadPoolExecutor(max_workers=NCPU) as ex:
        probes = list(ex.map(gen.rebind_probe, todo))
    rebind = {st["id"]: r for st, r in zip(todo, probes)}
    facts["rebindable"] = [bool(rebind[i]["rebindable"] is None or rebind[i]["rebindable"]) if i in rebind else False for i in range(n)]
    writable = [facts["elem_mut"][i] or facts["accepts_assign"][i] or facts["accepts_fill"][i] or facts["accepts_swap"][i] or facts["accepts_elements_assign"][i] for i in range(n)]
    facts["writable"] = writable

    const_roots = sorted({sid for (_, sid, c, _, _) in root_ids if c})
    mut_roots = sorted({sid for (_, sid, c, _, _) in root_ids if not c})
    # derived const roots: const-qualified views made by as_const()/std::as_const/auto const& from any reachable view
    derived = set()
    for s, o, t in edges:
        if opnames[o] in ("as_const", "std_as_const", "bind_const") and facts["is_view"][s] and facts["is_view"][t]:
            derived.add(t)
    derived_const_roots = sorted(derived - set(const_roots))
    adj = collections.defaultdict(list)
    for s, o, t in edges:
        adj[s].append((o, t))
    # closure + BFS tree from the const roots
    pred = {r: None for r in const_roots + derived_const_roots}
    dq = collections.deque(sorted(pred))
    while dq:
        s = dq.popleft()
        for o, t in sorted(adj[s]):
            if t not in pred:
                pred[t] = (s, o)
                dq.append(t)
    R = sorted(pred)

    def const_path(t):
        ops = []
        while pred[t] is not None:
            s, o = pred[t]
            ops.append(opnames[o])
            t = s
        ops.reverse()
        return t, ops
    # every way INTO a writable state from a non-writable state of R (one entry per (source type, op)), plus writable roots
    why = lambda s: [k for k in ("elem_mut", "accepts_assign", "accepts_fill", "accepts_swap", "accepts_elements_assign") if facts[k][s]]
    counterexamples = []
    for r in const_roots + derived_const_roots:
        if writable[r]:
            counterexamples.append({"root": r, "ops": [], "state": r, "why": why(r), "entry": None})
    for s, o, t in edges:
        if s in pred and not writable[s] and writable[t]:
            r, ops = const_path(s)
            counterexamples.append({"root": r, "ops": ops + [opnames[o]], "state": t, "why": why(t), "entry": [s, o, t]})
    counterexamples.sort(key=lambda c: (len(c["ops"]), c["root"], c["ops"]))
    # the known holes that are reachable from a const root, with a path (for the KNOWN-FINDING report)
    for h in known_holes:
        if h[0] in pred:
            r, ops = const_path(h[0])
            h.append({"root": r, "ops": ops + [opnames[h[1]]]})
        else:
            h.append(None)

    tab = {
        "repo": gen.repo, "tier": gen.tier, "maxD": gen.maxD, "elem": gen.elem,
        "ops": opnames, "op_expr": {o[0]: o[1] for o in gen.ops}, "op_pretty": {o[0]: o[3] for o in gen.ops},
        "states": [{"id": st["id"], "name": st["name"], "kind": st["kind"], "rank": st["rank"], "depth": st["depth"],
                    "path": (lambda r, ops: {"root": r["id"], "ops": ops})(*path_of(st)),
                    "raw_facts": st["facts"], "ill": st["ill"], "rebind_probe": rebind.get(st["id"])} for st in states],
        "roots": [{"label": lab, "state": sid, "const": c, "D": D, "role": role} for (lab, sid, c, D, role) in root_ids],
        "root_types": {str(st["id"]): st["root_type"] for st in states if st["parent"] is None},
        "edges": edges, "illformed": illformed, "leaving": leaving, "absent": absent, "known_holes": known_holes,
        "facts": facts,
        "const_roots": const_roots, "derived_const_roots": derived_const_roots, "mut_roots": mut_roots,
        "R": R, "certificate_exists": not counterexamples, "counterexamples": counterexamples,
        "const_making_ops": sorted(CONST_MAKING & set(opnames)),
    }
    # the mutable paths the property names (a grammar, not read off the table), minus those covered by open over-const findings
    spec = gen_const_lean.mutable_spec_paths(tab)
    keep, known_over, bad = [], [], []
    step = {(s, o): t for s, o, t in edges}
    for s, p, lab in spec:
        cur, why = s, None
        for k, o in enumerate(p):
            cur = step.get((cur, opid[o]))
            if cur is None:
                why = f"`{o}` (step {k}) is not available"
                break
        if cur is not None and not facts["elem_mut"][cur]:
            why = "ends in " + states[cur]["name"]
        if why is None:
            keep.append([s, p, lab])             # writable: the theorem covers it, whatever the findings say
            continue
        hit = [f for f in findings if path_matches(f, lab, p)]
        if hit:
            known_over.append([s, p, lab, hit[0]["key"]])
        else:
            keep.append([s, p, lab])             # stays in the obligation: the Lean theorem fails on it
            bad.append({"root": s, "ops": p, "label": lab, "why": why, "state": cur})
    tab["mutable_spec_paths"] = keep
    tab["known_overconst_paths"] = known_over
    tab["mutable_paths_not_writable"] = bad
    # facts the last two theorems need
    tab["named_views_copyable"] = [i for i in range(n) if facts["named_view"][i] and facts["copy_constructible"][i]]
    tab["views_rebindable"] = [i for i in range(n) if facts["view_ref"][i] and facts["rebindable"][i]]
    return tab


def main(argv):
    tier = os.environ.get("VERIF_TIER", "quick")
    repo = os.environ.get("VERIF_REPO", "/repo")
    jpath = os.path.join(HERE, ".build", "C16", "const_table.json")
    lpath = os.path.join(HERE, "lean", "MultiModel", "Gen", "ConstTable.lean")
    work = None
    no_lean = False
    use_findings = True
    reuse_raw = False
    i = 1
    while i < len(argv):
        if argv[i] == "--tier":
            tier = argv[i + 1]; i += 2
        elif argv[i] == "--json":
            jpath = argv[i + 1]; i += 2
        elif argv[i] == "--lean":
            lpath = argv[i + 1]; i += 2
        elif argv[i] == "--work":
            work = argv[i + 1]; i += 2
        elif argv[i] == "--no-lean":
            no_lean = True; i += 1
        elif argv[i] == "--no-findings":
            use_findings = False; i += 1
        elif argv[i] == "--reuse-raw":
            reuse_raw = True; i += 1
        else:
            i += 1
    if tier not in ("quick", "thorough"):
        tier = "quick"
    work = work or os.path.join(HERE, ".build", "C16", "gen")
    os.makedirs(os.path.dirname(jpath), exist_ok=True)
    if os.path.exists(jpath):
        os.unlink(jpath)          # a failing run must not leave a stale table behind
    t0 = time.time()
    gen = Gen(repo, tier, work)
    gen.build_prelude()
    roots = roots_for(tier)
    raw = os.path.join(os.path.dirname(jpath), "const_table_raw.%s.json" % tier)
    if reuse_raw and os.path.exists(raw):      # development aid only (never used by ./check): rebuild the table from a previous exploration
        d = json.load(open(raw))
        states = d["states"]
        for st in states:
            st["parent"] = states[st["parent"]] if st["parent"] is not None else None
            st["edges"] = {k: (tuple(v) if isinstance(v, list) else v) for k, v in st["edges"].items()}
        by_name = {k: states[v] for k, v in d["by_name"].items()}
        root_ids = [tuple(r) for r in d["root_ids"]]
    else:
        states, by_name, root_ids = bfs(gen, roots)
        json.dump({"states": [dict(st, parent=(st["parent"]["id"] if st["parent"] is not None else None)) for st in states],
                   "by_name": {k: v["id"] for k, v in by_name.items()}, "root_ids": root_ids}, open(raw, "w"))
    findings = load_open_findings() if use_findings else []
    tab = build_table(gen, states, by_name, root_ids, findings)
    tab["compiles"] = gen.compiles
    tab["gen_wall_s"] = round(time.time() - t0, 1)
    os.makedirs(os.path.dirname(jpath), exist_ok=True)
    json.dump(tab, open(jpath, "w"), indent=0)
    if not no_lean:
        import gen_const_lean
        os.makedirs(os.path.dirname(lpath), exist_ok=True)
        gen_const_lean.emit(tab, lpath)
    log(f"{len(tab['states'])} states, {len(tab['edges'])} edges, {len(tab['illformed'])} ill-formed, {len(tab['leaving'])} leaving (D>{gen.maxD}), "
        f"{len(tab['known_holes'])} known-hole edges cut, |R|={len(tab['R'])}, certificate {'exists' if tab['certificate_exists'] else 'DOES NOT EXIST'}, "
        f"{len(tab['mutable_spec_paths'])} mutable paths ({len(tab['mutable_paths_not_writable'])} not writable, {len(tab['known_overconst_paths'])} known over-const), "
        f"{gen.compiles} compiles, {tab['gen_wall_s']}s")
    for c in tab["counterexamples"][:10]:
        log("  const root reaches writable state:", tab["states"][c["root"]]["name"], c["ops"], "->", tab["states"][c["state"]]["name"], c["why"])
    for c in tab["mutable_paths_not_writable"][:10]:
        log("  mutable path not writable:", c["label"], c["ops"], c["why"])
    for i in tab["views_rebindable"][:5]:
        log("  view state rebindable / probe failed:", tab["states"][i]["name"], tab["states"][i]["rebind_probe"])
    for i in tab["named_views_copyable"][:5]:
        log("  named view copy-constructible:", tab["states"][i]["name"])
    return 0


if __name__ == "__main__":
    sys.path.insert(0, os.path.dirname(os.path.abspath(__file__)))
    sys.exit(main(sys.argv))
