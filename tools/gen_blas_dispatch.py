#!/usr/bin/env python3
"""Translator: BLAS dispatch chains of boost/multi/adaptors/blas  ->  lean/MultiModel/Gen/BlasDispatch.lean

Parses, from the CURRENT source under $VERIF_REPO (default /repo), the bodies of

    gemm_n (4 overloads selected by is_conjugated<A>, is_conjugated<B>)   gemm.hpp
    gemv_n                                                                 gemv.hpp
    herk (complex overload), syrk                                          herk.hpp, syrk.hpp
    trsm                                                                   trsm.hpp
    dot_n, axpy_n, scal_n, copy_n, swap_n, nrm2_n, asum_n, iamax_n         level 1 one-liners

with a small tokenizer + recursive-descent parser over the closed vocabulary these functions use
(`a_first.stride()`, `(*a_first).stride()`, `(*a_first).size()`, `a_count`, `.base()`, `underlying(...)`,
`stride(~a)`, `a.rotated().size()`, char literals, `c_side==filling::upper?'L':'U'`, `static_cast<char>(-a_fill)` ...)
and emits, per function, a Lean definition  operands -> Outcome R  (one BLAS call | nothing | failed assert | throw),
plus, per leaf of the decision tree, its guard (`F.guard_k`) and its call (`F.call_k`).

Branch ordinals are CANONICAL: leaves are numbered in the lexicographic order of the text of the positive conditions
on their path (the conditions of the `if`/`else if` arms that were taken), so re-ordering `else if` arms does not
renumber anything.  `F.guard_k` is the FULL path condition (including the negated conditions of the earlier arms).

Anything outside the vocabulary / grammar is an error: the script prints the reason and exits 2 (the check then
reports a broken obligation).  Nothing here is trusted for the proofs beyond "this Lean text is what the C++ says":
the differential run (harness/blas.cpp vs mmdrv_blas) compares every recorded BLAS call with the generated definitions.
"""
import os, re, sys, json

REPO = os.environ.get("VERIF_REPO", "/repo")
HERE = os.path.dirname(os.path.dirname(os.path.abspath(__file__)))
BLAS = os.path.join(REPO, "include/boost/multi/adaptors/blas")
OUT = os.path.join(HERE, "lean/MultiModel/Gen/BlasDispatch.lean")
OUTJ = os.path.join(HERE, "lean/MultiModel/Gen/BlasDispatch.branches.json")


class TranslateError(Exception):
    pass


# ------------------------------------------------------------------------------------------------ lexer
TOKEN = re.compile(r"""
    (?P<ws>\s+)
  | (?P<str>"(?:[^"\\]|\\.)*")
  | (?P<chr>'(?:[^'\\]|\\.)')
  | (?P<num>\d+(?:\.\d*)?[fFuUlL]*)
  | (?P<id>[A-Za-z_][A-Za-z_0-9]*)
  | (?P<op>->|::|==|!=|<=|>=|&&|\|\||\+\+|--|[-+*/%<>=!~&|^?:;,.(){}\[\]])
""", re.X)


def strip_comments(src):
    src = re.sub(r"/\*.*?\*/", lambda m: " " * 1 + "\n" * m.group(0).count("\n"), src, flags=re.S)
    src = re.sub(r"//[^\n]*", "", src)
    return re.sub(r"(?m)^[ \t]*#[^\n]*$", "", src)   # preprocessor lines (#define CTXT ... inside trsm)


def lex(text, line0=1):
    toks, pos, line = [], 0, line0
    while pos < len(text):
        m = TOKEN.match(text, pos)
        if not m:
            raise TranslateError(f"line {line}: cannot tokenize {text[pos:pos+30]!r}")
        kind = m.lastgroup
        val = m.group(0)
        if kind != "ws":
            toks.append((kind, val, line))
        line += val.count("\n")
        pos = m.end()
    return toks


# ------------------------------------------------------------------------------------------------ parser
class P:
    def __init__(self, toks):
        self.t, self.i = toks, 0

    def peek(self, k=0):
        return self.t[self.i + k] if self.i + k < len(self.t) else ("eof", "", -1)

    def val(self, k=0):
        return self.peek(k)[1]

    def line(self):
        return self.peek()[2]

    def eat(self, v=None):
        tok = self.peek()
        if v is not None and tok[1] != v:
            raise TranslateError(f"line {tok[2]}: expected {v!r}, found {tok[1]!r}")
        self.i += 1
        return tok

    def at(self, v):
        return self.val() == v

    # ---- statements
    def block(self):
        self.eat("{")
        out = []
        while not self.at("}"):
            out.append(self.stmt())
        self.eat("}")
        return ("block", out)

    def skip_to_semicolon(self):
        depth = 0
        txt = []
        while True:
            k, v, _ = self.eat()
            if k == "eof":
                raise TranslateError("unexpected end of function body")
            if v in "({[":
                depth += 1
            elif v in ")}]":
                depth -= 1
            elif v == ";" and depth == 0:
                return " ".join(txt)
            txt.append(v)

    def stmt(self):
        v = self.val()
        ln = self.line()
        if v == "{":
            return self.block()
        if v == ";":
            self.eat()
            return ("block", [])
        if v == "if":
            self.eat()
            if self.at("constexpr"):
                self.eat()
            self.eat("(")
            c = self.expr()
            self.eat(")")
            th = self.stmt()
            el = None
            if self.at("else"):
                self.eat()
                el = self.stmt()
            return ("if", c, th, el, ln)
        if v == "assert":
            self.eat()
            self.eat("(")
            c = self.expr()
            self.eat(")")
            self.eat(";")
            return ("assert", c, ln)
        if v == "static_assert":
            self.skip_to_semicolon()
            return ("throw", ln)
        if v == "throw":
            self.skip_to_semicolon()
            return ("throw", ln)
        if v == "return":
            self.eat()
            if self.at(";"):
                self.eat()
                return ("return", None, ln)
            e = self.expr_list()
            self.eat(";")
            return ("return", e, ln)
        if v in ("using", "struct", "typedef"):
            self.skip_to_semicolon()
            return ("block", [])
        if v == "auto" and self.peek(1)[0] == "id" and self.val(2) == "=":
            self.eat()
            name = self.eat()[1]
            self.eat("=")
            e = self.expr()
            self.eat(";")
            return ("alias", name, e, ln)
        if v == "try":
            self.eat()
            b = self.block()
            while self.at("catch"):
                self.eat()
                self.eat("(")
                depth = 1
                while depth:
                    t = self.eat()[1]
                    depth += (t == "(") - (t == ")")
                self.block()
            return b
        e = self.expr_list()
        self.eat(";")
        return ("expr", e, ln)

    def expr_list(self):
        es = [self.expr()]
        while self.at(","):
            self.eat()
            es.append(self.expr())
        return es[0] if len(es) == 1 else ("comma", es)

    # ---- expressions (precedence climbing: ?: || && ==/!= unary postfix)
    def expr(self):
        c = self.lor()
        if self.at("?"):
            self.eat()
            a = self.expr()
            self.eat(":")
            b = self.expr()
            return ("?:", c, a, b)
        return c

    def lor(self):
        e = self.land()
        while self.at("||"):
            self.eat()
            e = ("||", e, self.land())
        return e

    def land(self):
        e = self.eq()
        while self.at("&&"):
            self.eat()
            e = ("&&", e, self.eq())
        return e

    def eq(self):
        e = self.rel()
        while self.val() in ("==", "!="):
            op = self.eat()[1]
            e = (op, e, self.rel())
        return e

    def rel(self):
        e = self.add()
        while self.val() in (">=", "<=") or (self.val() in ("<", ">") and False):
            op = self.eat()[1]
            e = (op, e, self.add())
        return e

    def add(self):
        e = self.unary()
        while self.val() in ("+", "-") :
            op = self.eat()[1]
            e = (op, e, self.unary())
        return e

    def unary(self):
        v = self.val()
        if v in ("!", "-", "+", "~", "&", "*"):
            self.eat()
            return ("un" + v, self.unary())
        return self.postfix()

    def template_args(self):
        """after an identifier: '<' ... '>' balanced; returns text"""
        self.eat("<")
        depth, txt = 1, []
        while depth:
            k, v, _ = self.eat()
            if k == "eof":
                raise TranslateError("unbalanced <>")
            if v == "<":
                depth += 1
            elif v == ">":
                depth -= 1
                if depth == 0:
                    break
            txt.append(v)
        return "".join(txt)

    TEMPLATE_IDS = {"is_conjugated", "is_complex", "static_cast", "forward", "get", "integral_constant"}

    def primary(self):
        k, v, ln = self.peek()
        if v == "(":
            self.eat()
            e = self.expr_list()
            self.eat(")")
            return ("paren", e)
        if k == "num":
            self.eat()
            return ("num", v)
        if k == "chr":
            self.eat()
            return ("chr", v[1:-1])
        if k == "str":
            self.eat()
            return ("str", v)
        if k == "id":
            self.eat()
            name = v
            while self.at("::"):
                self.eat()
                if self.at("template"):
                    self.eat()
                name += "::" + self.eat()[1]
            base = name.split("::")[-1]
            if self.at("<") and base in self.TEMPLATE_IDS:
                name += "<" + self.template_args() + ">"
                while self.at("::"):
                    self.eat()
                    name += "::" + self.eat()[1]
            if self.at("{") and self.val(1) == "}":
                self.eat()
                self.eat()
                return ("id", name + "{}")
            return ("id", name)
        raise TranslateError(f"line {ln}: unexpected token {v!r} in expression")

    def postfix(self):
        e = self.primary()
        while True:
            v = self.val()
            if v == "(":
                self.eat()
                args = []
                if not self.at(")"):
                    args.append(self.expr())
                    while self.at(","):
                        self.eat()
                        args.append(self.expr())
                self.eat(")")
                e = ("call", e, args)
            elif v in (".", "->"):
                self.eat()
                if self.at("template"):
                    self.eat()
                name = self.eat()[1]
                if self.at("<") and self.peek(1)[0] == "num" and self.val(2) == ">":
                    self.eat(); n = self.eat()[1]; self.eat()
                    name += "<" + n + ">"
                e = ("mem", v, e, name)
            else:
                return e


def canon(e):
    """canonical text of an expression (no whitespace)"""
    k = e[0]
    if k == "id":
        return e[1]
    if k == "num":
        return e[1]
    if k == "chr":
        return "'" + e[1] + "'"
    if k == "str":
        return e[1]
    if k == "paren":
        return "(" + canon(e[1]) + ")"
    if k == "call":
        return canon(e[1]) + "(" + ",".join(canon(a) for a in e[2]) + ")"
    if k == "mem":
        return canon(e[2]) + e[1] + e[3]
    if k.startswith("un"):
        return k[2:] + canon(e[1])
    if k == "?:":
        return canon(e[1]) + "?" + canon(e[2]) + ":" + canon(e[3])
    if k == "comma":
        return ",".join(canon(x) for x in e[1])
    return canon(e[1]) + k + canon(e[2])


# ------------------------------------------------------------------------------------------------ vocabularies
def mat_vocab(cname, lname, first=True):
    """C++ spellings of the five quantities of a 2-D operand -> Lean"""
    v = {}
    if first:  # iterator style (gemm_n, gemv_n): X_first, count given separately
        it = cname
        v[f"{it}.stride()"] = f"{lname}.s0"
        v[f"stride({it})"] = f"{lname}.s0"
        v[f"(*{it}).stride()"] = f"{lname}.s1"
        v[f"(*{it}).size()"] = f"{lname}.n1"
        for b in (f"{it}.base()", f"base({it})", f"underlying({it}.base())", f"underlying(base({it}))"):
            v[b] = ("ptr", f"{lname}.base")
    else:      # array style (herk, syrk, trsm)
        a = cname
        for s in (f"stride({a})", f"{a}.stride()"):
            v[s] = f"{lname}.s0"
        for s in (f"stride(~{a})", f"{a}.rotated().stride()", f"(~{a}).stride()"):
            v[s] = f"{lname}.s1"
        for s in (f"size({a})", f"{a}.size()"):
            v[s] = f"{lname}.n0"
        for s in (f"size(~{a})", f"{a}.rotated().size()", f"(~{a}).size()", f"get<1>({a}.sizes())"):
            v[s] = f"{lname}.n1"
        for b in (f"{a}.base()", f"base({a})", f"underlying({a}.base())", f"base_aux({a})", f"underlying(bbase({a}))"):
            v[b] = ("ptr", f"{lname}.base")
        v[f"{a}.is_empty()"] = ("prop", f"{lname}.n0 = 0")
    return v


def vec_vocab(it, lname):
    v = {f"{it}.stride()": f"{lname}.inc", f"stride({it})": f"{lname}.inc"}
    for b in (f"{it}.base()", f"base({it})", f"underlying({it}.base())", f"underlying(base({it}))"):
        v[b] = ("ptr", f"{lname}.base")
    return v


SCAL = {"&alpha": "alpha", "&beta": "beta", "alpha": "alpha", "beta": "beta", "conj(alpha)": "(CRing.conj alpha)", "&a": "alpha", "&b": "beta"}

FILL = {  # filling.hpp: lower = 'U', upper = 'L'
    "c_side==filling::upper?'L':'U'": "side.char", "c_side==filling::upper?'U':'L'": "side.flip.char",
    "flip(c_side)==filling::upper?'L':'U'": "side.flip.char", "flip(c_side)==filling::upper?'U':'L'": "side.char",
}
TRSM_FLAGS = {
    "static_cast<char>(a_side)": "side.char", "static_cast<char>((a_side))": "side.char", "static_cast<char>(swap(a_side))": "side.swap.char",
    "static_cast<char>(-a_fill)": "fill.flip.char", "static_cast<char>(+a_fill)": "fill.char", "static_cast<char>(a_fill)": "fill.char",
    "static_cast<char>(a_diag)": "diag.char",
}


class Ctx:
    """translation context of one function: vocabulary + aliases"""

    def __init__(self, fname, vocab, conj=None):
        self.fname, self.vocab, self.conj = fname, dict(vocab), conj or {}

    def lookup(self, e):
        c = canon(e)
        while c.startswith("(") and c.endswith(")") and c not in self.vocab:
            inner = c[1:-1]
            if inner.count("(") != inner.count(")"):
                break
            c = inner
        if c in self.vocab:
            return self.vocab[c]
        raise TranslateError(f"{self.fname}: expression outside the vocabulary: {canon(e)}")

    # Int-valued
    def int(self, e):
        if e[0] == "num":
            return e[1]
        if e[0] == "paren":
            return self.int(e[1])
        if e[0] == "call" and canon(e[1]) in ("legal_ld", "blas::legal_ld") and len(e[2]) == 2:
            # core.hpp: legal_ld(stride, rows) = the larger of the two (a leading dimension BLAS accepts)
            return f"legalLd ({self.int(e[2][0])}) ({self.int(e[2][1])})"
        r = self.lookup(e)
        if isinstance(r, tuple):
            raise TranslateError(f"{self.fname}: {canon(e)} is not an integer quantity")
        return r

    def prop(self, e):
        k = e[0]
        if k == "paren":
            return self.prop(e[1])
        if k == "&&":
            # the conditions of the dispatch chains are pure comparisons of strides and sizes: the conjuncts are emitted in one
            # canonical (sorted) order, so that `a && b` -> `b && a` in the source does not change the generated guard
            def flat(x):
                while x[0] == "paren":
                    x = x[1]
                return flat(x[1]) + flat(x[2]) if x[0] == "&&" else [x]
            parts = sorted(self.prop(x) for x in flat(e))
            t = parts[0]
            for q in parts[1:]:
                t = f"({t} ∧ {q})"
            return t
        if k == "||":
            return f"({self.prop(e[1])} ∨ {self.prop(e[2])})"
        if k == "un!":
            return f"¬ {self.prop(e[1])}"
        if k in ("==", "!="):
            l, r = e[1], e[2]
            cl, cr = canon(l), canon(r)
            for side, enum in (("a_side", "side"),):
                if cl == side and cr.startswith("blas::side::"):
                    s = f"{enum} = Side.{cr.split('::')[-1]}"
                    return s if k == "==" else f"¬ ({s})"
            if "base()" in cl and "base()" in cr:   # pointer comparisons (aliasing asserts): positions in the arena
                s = f"{self.ptr(l)} = {self.ptr(r)}"
                return f"({s})" if k == "==" else f"({self.ptr(l)} ≠ {self.ptr(r)})"
            x, y = self.int(l), self.int(r)
            if re.fullmatch(r"\(?-?\d+\)?", x) and not re.fullmatch(r"\(?-?\d+\)?", y):
                x, y = y, x      # `0 == n` is `n == 0`
            s = f"{x} = {y}"
            return f"({s})" if k == "==" else f"({x} ≠ {y})"
        if k in (">=", "<="):
            return f"({self.int(e[1])} {'≥' if k == '>=' else '≤'} {self.int(e[2])})"
        if k == "num":
            return "True" if e[1] != "0" else "False"
        if k == "str":
            return "True"
        if k == "id":
            c = e[1]
            m = re.match(r"(?:blas::)?is_conjugated<(\w+)>(?:\{\}|::value)", c)
            if m:
                if m.group(1) not in self.conj:
                    raise TranslateError(f"{self.fname}: is_conjugated of unknown type {m.group(1)}")
                return f"({self.conj[m.group(1)]} = true)"
            m = re.match(r"is_complex<.*>(?:\{\}|::value)", c)
            if m:
                return "(cplx = true)"
        r = None
        try:
            r = self.lookup(e)
        except TranslateError:
            pass
        if isinstance(r, tuple) and r[0] == "prop":
            return f"({r[1]})"
        raise TranslateError(f"{self.fname}: condition outside the vocabulary: {canon(e)}")

    def ptr(self, e):
        r = self.lookup(e)
        if isinstance(r, tuple) and r[0] == "ptr":
            return r[1]
        raise TranslateError(f"{self.fname}: {canon(e)} is not a known pointer")

    def scal(self, e):
        c = canon(e)
        if c in SCAL:
            return SCAL[c]
        raise TranslateError(f"{self.fname}: scalar argument outside the vocabulary: {c}")

    def char(self, e):
        if e[0] == "chr":
            return f"'{e[1]}'"
        c = canon(e)
        for tab in (FILL, TRSM_FLAGS):
            if c in tab:
                return tab[c]
        raise TranslateError(f"{self.fname}: flag argument outside the vocabulary: {c}")


# BLAS routines: argument kinds  (c char, i int, s scalar, p pointer, r result pointer (ignored))
ARITY = {
    "gemm": "cciiispipispi", "gemv": "ciispipispi", "syrk": "cciispispi", "herk": "cciispispi", "trsm": "cccciispipi",
    "axpy": "ispipi", "scal": "ispi", "copy": "ipipi", "swap": "ipipi",
    "dot": "ipipir", "dotu": "ipipir", "dotc": "ipipir", "nrm2": "ipir", "asum": "ipir", "iamax": "ipi",
}


def lean_call(ctx, name, args):
    kinds = ARITY[name]
    if len(args) != len(kinds):
        raise TranslateError(f"{ctx.fname}: {name} called with {len(args)} arguments, expected {len(kinds)}")
    vals = []
    for k, a in zip(kinds, args):
        if k == "c":
            vals.append(ctx.char(a))
        elif k == "i":
            vals.append("(" + ctx.int(a) + ")")
        elif k == "s":
            vals.append(ctx.scal(a))
        elif k == "p":
            vals.append("(" + ctx.ptr(a) + ")")
    if name == "gemm":
        return "Call.gemm ⟨" + ", ".join(vals) + "⟩"
    if name == "gemv":
        return "Call.gemv ⟨" + ", ".join(vals) + "⟩"
    if name in ("syrk", "herk"):
        return f"Call.{name} ⟨" + ", ".join(vals) + "⟩"
    if name == "trsm":
        return "Call.trsm ⟨" + ", ".join(vals) + "⟩"
    if name == "axpy":
        n, al, x, ix, y, iy = vals
        return f"Call.axpy ⟨{n}, {al}, {x}, {ix}, {y}, {iy}⟩"
    if name == "scal":
        n, al, x, ix = vals
        return f"Call.scal ⟨{n}, {al}, {x}, {ix}, 0, 0⟩"
    if name in ("copy", "swap"):
        n, x, ix, y, iy = vals
        return f"Call.{name} ⟨{n}, 0, {x}, {ix}, {y}, {iy}⟩"
    if name in ("dot", "dotu", "dotc"):
        n, x, ix, y, iy = vals
        return f"Call.{name} ⟨{n}, 0, {x}, {ix}, {y}, {iy}⟩"
    if name in ("nrm2", "asum", "iamax"):
        n, x, ix = vals
        return f"Call.{name} ⟨{n}, 0, {x}, {ix}, 0, 0⟩"
    raise TranslateError(name)


def find_blas_call(e):
    """expression statement -> (routine, args) if it is a call of a BLAS routine through the context / core"""
    if e[0] == "comma":
        for x in e[1]:
            r = find_blas_call(x)
            if r:
                return r
        return None
    if e[0] == "paren":
        return find_blas_call(e[1])
    if e[0] != "call":
        return None
    f = e[1]
    name = None
    if f[0] == "mem" and f[1] == "->":
        name = f[3]
    elif f[0] == "id":
        name = f[1].split("::")[-1]
    if name in ARITY and len(e[2]) == len(ARITY[name]):
        return name, e[2]
    return None


# ------------------------------------------------------------------------------------------------ decision tree
class Leaf:
    def __init__(self, kind, payload, line, guards):
        self.kind, self.payload, self.line, self.guards = kind, payload, line, list(guards)
        self.ordinal = 0


def build2(ctx, stmts, guards, leaves, recurse):
    """same as build but always returns a tree: ("IF", cond, a, b) | ("LEAF", leaf, text) | ("TXT", text)"""
    if not stmts:
        return ("TXT", ".nop 0")
    s, rest = stmts[0], stmts[1:]
    k = s[0]
    if k == "block":
        return build2(ctx, s[1] + rest, guards, leaves, recurse)
    if k == "alias":
        try:
            ctx.vocab[s[1]] = ctx.lookup(s[2])
        except TranslateError:
            pass   # e.g. `auto ctxt = default_context_of(...)`: not a quantity; an unknown name used later is still an error
        return build2(ctx, rest, guards, leaves, recurse)
    if k == "assert":
        c = s[1]
        if canon(c) in ("0", "false") or (c[0] == "&&" and canon(c[1]) == "0"):
            lf = Leaf("assert0", None, s[2], guards)
            leaves.append(lf)
            cont = build2(ctx, rest, guards, [], recurse)
            return ("IF", "nd = true", cont, ("LEAF", lf, ".assertFail @@"))
        cont = build2(ctx, rest, guards, leaves, recurse)
        return ("IF", f"¬ nd = true ∧ ¬ {ctx.prop(c)}", ("TXT", ".assertFail 0"), cont)
    if k == "throw":
        lf = Leaf("throw", None, s[1], guards)
        leaves.append(lf)
        return ("LEAF", lf, ".throw @@")
    if k == "return":
        bc = find_blas_call(s[1]) if s[1] is not None else None
        if bc:   # `return ctxt->axpy(...), d_first + n;`
            name, args = bc
            lf = Leaf("call", lean_call(ctx, name, args), s[2], guards)
            leaves.append(lf)
            return ("LEAF", lf, None)
        return ("TXT", ".nop 0")
    if k == "if":
        _, c, th, el, ln = s
        # `if(cond) {assert(x);}` (no else, nothing but assertions inside): a conditional assertion, not a fork of the path
        pa = pure_asserts(th)
        if el is None and pa is not None:
            conds = [("assert", ("||", ("un!", ("paren", c)), ("paren", a[1])), a[2]) for a in pa]
            return build2(ctx, conds + rest, guards, leaves, recurse)
        pc = ctx.prop(c)
        a = build2(ctx, [th] + rest, guards + [(pc, True)], leaves, recurse)
        b = build2(ctx, ([el] if el is not None else []) + rest, guards + [("¬ " + pc, False)], leaves, recurse)
        return ("IF", pc, a, b)
    if k == "expr":
        e = s[1]
        if recurse:
            r = recurse(ctx, e)
            if r is not None:
                lf = Leaf("rec", r, s[2], guards)
                leaves.append(lf)
                return ("LEAF", lf, r)
        bc = find_blas_call(e)
        if bc:
            name, args = bc
            lf = Leaf("call", lean_call(ctx, name, args), s[2], guards)
            leaves.append(lf)
            tail = build2(ctx, rest, guards, [], recurse)
            if tail != ("TXT", ".nop 0"):
                raise TranslateError(f"{ctx.fname}: line {s[2]}: statements with effects follow a BLAS call")
            return ("LEAF", lf, None)
        raise TranslateError(f"{ctx.fname}: line {s[2]}: statement outside the grammar: {canon(e)[:80]}")
    raise TranslateError(f"{ctx.fname}: unknown statement kind {k}")


def pure_asserts(st):
    """the assert statements of a statement that contains nothing else (None otherwise)"""
    if st[0] == "assert":
        return None if canon(st[1]) in ("0", "false") else [st]
    if st[0] == "block":
        out = []
        for x in st[1]:
            r = pure_asserts(x)
            if r is None:
                return None
            out += r
        return out if out else None
    return None


def render2(t, fq, args, indent="  "):
    if t[0] == "TXT":
        return t[1]
    if t[0] == "IF":
        return f"if {t[1]} then\n{indent}  {render2(t[2], fq, args, indent + '  ')}\n{indent}else\n{indent}  {render2(t[3], fq, args, indent + '  ')}"
    lf = t[1]
    if lf.kind == "call":
        return f".call {lf.ordinal} ({fq}.call_{lf.ordinal} {args})"
    if lf.kind == "rec":
        return lf.payload
    return t[2].replace("@@", str(lf.ordinal))


# ------------------------------------------------------------------------------------------------ source access
def read(name):
    p = os.path.join(BLAS, name)
    if not os.path.exists(p):
        raise TranslateError(f"missing source file {p}")
    return strip_comments(open(p).read())


def match_brace(src, i):
    """index just after the brace block starting at src[i] == '{'"""
    assert src[i] == "{"
    depth = 0
    in_str = None
    j = i
    while j < len(src):
        ch = src[j]
        if in_str:
            if ch == "\\":
                j += 1
            elif ch == in_str:
                in_str = None
        elif ch in "\"'":
            in_str = ch
        elif ch == "{":
            depth += 1
        elif ch == "}":
            depth -= 1
            if depth == 0:
                return j + 1
        j += 1
    raise TranslateError("unbalanced braces")


def functions(src, header_re):
    """yields (template_header_text, params_text, body_text, line) for every function DEFINITION whose text from
    `auto name(` on matches header_re (the regex may look into the parameter list)"""
    for m in re.finditer(header_re, src):
        i = src.index("(", m.start())
        depth, j = 0, i
        while True:
            depth += (src[j] == "(") - (src[j] == ")")
            j += 1
            if depth == 0:
                break
        params = src[i + 1:j - 1]
        # body: the next '{' at parenthesis depth 0 (a trailing `-> decltype(...)` keeps its braces inside parentheses);
        # a ';' first means this is only a declaration
        k, depth = j, 0
        while k < len(src):
            if src[k] == "(":
                depth += 1
            elif src[k] == ")":
                depth -= 1
            elif src[k] == ";" and depth == 0:
                k = -1
                break
            elif src[k] == "{" and depth == 0:
                break
            k += 1
        if k < 0 or k >= len(src):
            continue
        end = match_brace(src, k)
        th = src.rfind("template<", 0, m.start())
        yield (src[th:m.start()] if th >= 0 else ""), params, src[k:end], src.count("\n", 0, k) + 1


def parse_body(body, line):
    p = P(lex(body, line))
    blk = p.block()
    return blk[1]


# ------------------------------------------------------------------------------------------------ emit
class Emitter:
    def __init__(self):
        self.out = []
        self.table = []

    def function(self, lean_name, binders, args, ctx, stmts, src_ref, doc, recurse=None, call_binders=None, call_args=None, guard_binders=None):
        leaves = []
        tree = build2(ctx, stmts, [], leaves, recurse)
        real = [l for l in leaves if l.kind in ("call", "assert0", "throw")]
        # canonical ordinals: order of the leaves' own guard texts
        # (only the POSITIVE guards of the path: the negated conditions of earlier `else if` arms depend on the order of the arms)
        keyed = sorted(real, key=lambda l: (" & ".join(g for g, taken in l.guards if taken), l.kind, l.payload or ""))
        keys = [" & ".join(g for g, taken in l.guards if taken) + "|" + l.kind for l in keyed]
        if len(set(keys)) != len(keys):
            raise TranslateError(f"{lean_name}: two leaves with the same positive guards; canonical numbering impossible")
        for n, l in enumerate(keyed, 1):
            l.ordinal = n
        cb = call_binders if call_binders is not None else binders
        ca = call_args if call_args is not None else args
        o = self.out
        o.append(f"/-! ### `{lean_name}` — {src_ref}\n{doc}\n\n| ordinal | source line | kind | own guards |\n|---|---|---|---|")
        for l in sorted(real, key=lambda l: l.ordinal):
            o.append(f"| {l.ordinal} | {l.line} | {l.kind} | {' ; '.join(g for g, _ in l.guards)} |")
            self.table.append({"function": lean_name, "ordinal": l.ordinal, "line": l.line, "kind": l.kind, "guards": [g for g, _ in l.guards], "taken": [g for g, t in l.guards if t],
                               "call": l.payload if l.kind == "call" else None, "file": src_ref.split(":")[0]})
        o.append("-/\n")
        for l in sorted(real, key=lambda l: l.ordinal):
            g = " ∧ ".join(x for x, _ in l.guards) if l.guards else "True"
            o.append(f"/-- {src_ref.split(':')[0]}:{l.line} -/")
            o.append(f"abbrev {lean_name}.guard_{l.ordinal} {guard_binders or binders_guard(cb)} : Prop :=\n  {g}\n")
            if l.kind == "call":
                o.append(f"def {lean_name}.call_{l.ordinal} {cb} : Call R :=\n  {l.payload}\n")
        o.append(f"def {lean_name} {binders} : Outcome R :=\n  {render2(tree, lean_name, ca)}\n")
        # elimination principle: a `.call t cl` outcome comes from exactly one leaf, whose guard then holds
        calls = [l for l in sorted(real, key=lambda l: l.ordinal) if l.kind == "call"]
        recs = [l for l in leaves if l.kind == "rec" and not l.payload.startswith(".throw")]
        imp = binders.replace("(", "{").replace(")", "}").replace("{R : Type} [CRing R]", "{R : Type} [CRing R]")
        gargs = " ".join(y for x in re.findall(r"\((\w[\w ]*?) :", guard_binders or binders_guard(cb)) for y in x.split())
        fargs = " ".join(y for x in re.findall(r"[({](\w[\w ]*?) :", binders)[1:] for y in x.split())
        hyps = "".join(f"\n    (h{l.ordinal} : {lean_name}.guard_{l.ordinal} {gargs} → P {l.ordinal} ({lean_name}.call_{l.ordinal} {ca}))" for l in calls)
        for n, l in enumerate(recs):
            hyps += f"\n    (hrec{n} : {l.payload} = Outcome.call t cl → P t cl)"
        self.counter = 0
        proof = self.elim_proof(tree, [], "  ", recs)
        o.append(f"/-- case analysis principle for `{lean_name}` (generated, checked by Lean) -/\n"
                 f"theorem {lean_name}.elim {imp} {{t : Nat}} {{cl : Call R}}\n"
                 f"    (h : {lean_name} {fargs} = .call t cl) (P : Nat → Call R → Prop){hyps} : P t cl := by\n"
                 f"  unfold {lean_name} at h\n{proof}\n")
        # the same for rejections by assertion: which assertion fired
        if not recs:
            self.counter = 0
            self.pre = []
            proof2 = self.elim_assert_proof(tree, [], "  ")
            a0 = [l for l in sorted(real, key=lambda l: l.ordinal) if l.kind == "assert0"]
            hyps2 = "".join(f"\n    (hp{n} : ({c}) → P)" for n, c in enumerate(self.pre))
            hyps2 += "".join(f"\n    (ha{l.ordinal} : {lean_name}.guard_{l.ordinal} {gargs} → P)" for l in a0)
            if self.pre or a0:
              o.append(f"/-- which assertion fired when `{lean_name}` aborts (generated, checked by Lean) -/\n"
                     f"theorem {lean_name}.elimAssert {imp} {{t : Nat}}\n"
                     f"    (h : {lean_name} {fargs} = .assertFail t) (P : Prop){hyps2} : P := by\n"
                     f"  unfold {lean_name} at h\n{proof2}\n")
        return real

    def elim_assert_proof(self, t, hs, ind):
        if t[0] == "TXT":
            if t[1].startswith(".assertFail"):
                return f"{ind}exact hp{len(self.pre) - 1} {self.lastc}"
            return f"{ind}cases h"
        if t[0] == "IF":
            self.counter += 1
            hn = f"c{self.counter}"
            is_pre = t[1].startswith("¬ nd = true ∧")
            is_nd = t[1] == "nd = true"
            if is_pre:
                self.pre.append(t[1])
                self.lastc = hn
            a = self.elim_assert_proof(t[2], hs if (is_pre or is_nd) else hs + [hn], ind + "  ")
            b = self.elim_assert_proof(t[3], hs if (is_pre or is_nd) else hs + [hn], ind + "  ")
            return (f"{ind}by_cases {hn} : {t[1]}\n{ind}· rw [if_pos {hn}] at h\n{a}\n{ind}· rw [if_neg {hn}] at h\n{b}")
        lf = t[1]
        if lf.kind == "assert0":
            g = "⟨" + ", ".join(hs) + "⟩" if len(hs) > 1 else (hs[0] if hs else "trivial")
            return f"{ind}exact ha{lf.ordinal} {g}"
        return f"{ind}cases h"

    def elim_proof(self, t, hs, ind, recs):
        """structured proof following the decision tree; hs = names of the hypotheses that make up the guard so far"""
        if t[0] == "TXT":
            return f"{ind}cases h"
        if t[0] == "IF":
            self.counter += 1
            hn = f"c{self.counter}"
            is_pre = t[1].startswith("¬ nd = true ∧") or t[1] == "nd = true"
            a = self.elim_proof(t[2], hs if is_pre else hs + [hn], ind + "  ", recs)
            b = self.elim_proof(t[3], hs if is_pre else hs + [hn], ind + "  ", recs)
            return (f"{ind}by_cases {hn} : {t[1]}\n{ind}· rw [if_pos {hn}] at h\n{a}\n{ind}· rw [if_neg {hn}] at h\n{b}")
        lf = t[1]
        if lf.kind == "call":
            g = "⟨" + ", ".join(hs) + "⟩" if len(hs) > 1 else (hs[0] if hs else "trivial")
            return f"{ind}injection h with ht hc; subst ht; subst hc; exact h{lf.ordinal} {g}"
        if lf.kind == "rec" and lf in recs:
            return f"{ind}exact hrec{recs.index(lf)} h"
        return f"{ind}cases h"


def binders_guard(b):
    """guards do not mention the scalars / the ring: drop `{R} [CRing R]` and scalar binders"""
    b = re.sub(r"\{R : Type\} \[CRing R\]\s*", "", b)
    b = re.sub(r"\((?:alpha|beta|alpha beta) : R\)\s*", "", b)
    b = re.sub(r"\(n : Int\)\s*", "", b)
    return b


def guard_args(a):
    return " ".join(x for x in a.split() if x not in ("alpha", "beta"))


def main():
    em = Emitter()
    hdr = []
    # ---------------------------------------------------------------- gemm_n
    src = read("gemm.hpp")
    found = {}
    for th, params, body, line in functions(src, r"auto\s+gemm_n\s*\(\s*Context&&\s*ctxt\s*,"):
        m = re.search(r"enable_if_t<\(\s*(!?)\s*is_conjugated<It2DA>\{\}\s*&&\s*(!?)\s*is_conjugated<It2DB>\{\}\s*\)", th)
        if not m:
            raise TranslateError("gemm_n: overload without the is_conjugated<It2DA>/<It2DB> enable_if pattern")
        key = ("n" if m.group(1) == "!" else "c") + ("n" if m.group(2) == "!" else "c")
        if key in found:
            raise TranslateError(f"gemm_n: two overloads for conjugation pattern {key}")
        found[key] = (body, line)
    if sorted(found) != ["cc", "cn", "nc", "nn"]:
        raise TranslateError(f"gemm_n: expected the four (conj A, conj B) overloads, found {sorted(found)}")
    B3 = "{R : Type} [CRing R] (nd : Bool) (alpha beta : R) (a b c : Mat)"
    CB3 = "{R : Type} [CRing R] (alpha beta : R) (a b c : Mat)"
    for key in ("nn", "nc", "cn", "cc"):
        body, line = found[key]
        vocab = {}
        for cn, ln in (("a_first", "a"), ("b_first", "b"), ("c_first", "c")):
            vocab.update(mat_vocab(cn, ln, True))
        vocab["a_count"] = "a.n0"
        ctx = Ctx("gemm_n_" + key, vocab)
        em.function("gemm_n_" + key, B3, "alpha beta a b c", ctx, parse_body(body, line), f"gemm.hpp:{line}",
                    f"overload for is_conjugated<A> = {key[0] == 'c'}, is_conjugated<B> = {key[1] == 'c'}", call_binders=CB3, call_args="alpha beta a b c")
    em.out.append("/-- overload resolution of `gemm_n` on the conjugation of A and B (gemm.hpp: the four `enable_if_t` headers) -/\n"
                  "def gemm_n {R : Type} [CRing R] (nd : Bool) (alpha beta : R) (a b c : Mat) : Outcome R :=\n"
                  "  match a.cj, b.cj with\n  | false, false => gemm_n_nn nd alpha beta a b c\n  | false, true => gemm_n_nc nd alpha beta a b c\n"
                  "  | true, false => gemm_n_cn nd alpha beta a b c\n  | true, true => gemm_n_cc nd alpha beta a b c\n")
    # ---------------------------------------------------------------- gemv_n
    src = read("gemv.hpp")
    fs = list(functions(src, r"auto\s+gemv_n\s*\(\s*Context\s+ctxt\s*,"))
    if len(fs) != 1:
        raise TranslateError(f"gemv_n: expected one definition with a context parameter, found {len(fs)}")
    th, params, body, line = fs[0]
    vocab = mat_vocab("m_first", "m", True)
    vocab["count"] = "m.n0"
    vocab.update(vec_vocab("x_first", "x"))
    vocab.update(vec_vocab("y_first", "y"))
    ctx = Ctx("gemv_n", vocab, conj={"MIt": "m.cj"})
    BV = "{R : Type} [CRing R] (nd : Bool) (alpha beta : R) (m : Mat) (x y : Vec)"
    em.function("gemv_n", BV, "alpha beta m x y", ctx, parse_body(body, line), f"gemv.hpp:{line}", "y := a M x + b y; `a`,`b` are the scalars",
                call_binders="{R : Type} [CRing R] (alpha beta : R) (m : Mat) (x y : Vec)")
    # ---------------------------------------------------------------- syrk
    src = read("syrk.hpp")
    fs = list(functions(src, r"auto\s+syrk\s*\(\s*filling\s+c_side\s*,\s*typename\s+A2D::element\s+alpha\s*,\s*A2D\s+const&\s*a\s*,\s*typename\s+A2D::element\s+beta"))
    if len(fs) != 1:
        raise TranslateError(f"syrk: expected one 5-argument definition, found {len(fs)}")
    th, params, body, line = fs[0]
    cname = re.search(r"C2D&&\s*(\w+)", params).group(1)
    vocab = mat_vocab("a", "a", False)
    vocab.update(mat_vocab(cname, "c", False))
    ctx = Ctx("syrk", vocab)
    BS = "{R : Type} [CRing R] (nd : Bool) (side : Filling) (alpha beta : R) (a c : Mat)"
    em.function("syrk", BS, "side alpha beta a c", ctx, parse_body(body, line), f"syrk.hpp:{line}", "C := alpha A Aᵀ + beta C on the `side` triangle",
                call_binders="{R : Type} [CRing R] (side : Filling) (alpha beta : R) (a c : Mat)")
    # ---------------------------------------------------------------- herk (complex overload)
    src = read("herk.hpp")
    fs = [f for f in functions(src, r"auto\s+herk\s*\(\s*filling\s+c_side\s*,\s*AA\s+alpha\s*,\s*A2D\s+const&\s*a\s*,\s*BB\s+beta\s*,\s*C2D&&\s*c\s*\)") if "enable_if_t<is_complex_array<C2D>" in f[0].replace(" ", "")]
    if len(fs) != 1:
        raise TranslateError(f"herk: expected one complex 5-argument definition, found {len(fs)}")
    th, params, body, line = fs[0]
    vocab = mat_vocab("a", "a", False)
    vocab.update(mat_vocab("c", "c", False))

    def herk_rec(ctx, e):
        if canon(e) == "herk(flip(c_side),alpha,a,beta,hermitized(c))":
            return "herk_plain nd side.flip alpha beta a c.conj.tr"
        return None
    stmts = parse_body(body, line)
    BH = "{R : Type} [CRing R] (nd : Bool) (side : Filling) (alpha beta : R) (a c : Mat)"
    CBH = "{R : Type} [CRing R] (side : Filling) (alpha beta : R) (a c : Mat)"
    # herk_plain: the function as executed for a non-conjugated C (the recursive arm cannot be taken twice)
    ctx = Ctx("herk_plain", vocab, conj={"C2D": "c.cj", "A2D": "a.cj"})
    em.function("herk_plain", BH, "side alpha beta a c", ctx, stmts, f"herk.hpp:{line}",
                "the complex `herk` as it runs once C is not conjugated (the `is_conjugated<C2D>` arm is then dead: a second level of recursion is a `throw` here)",
                recurse=lambda c, e: (".throw 0" if herk_rec(c, e) else None), call_binders=CBH)
    ctx = Ctx("herk", vocab, conj={"C2D": "c.cj", "A2D": "a.cj"})
    em.function("herk", BH, "side alpha beta a c", ctx, stmts, f"herk.hpp:{line}",
                "complex `herk(filling, alpha, a, beta, c)`: C := alpha A Aᴴ + beta C; a conjugated C is handled by one recursive call on hermitized(c) with the filling flipped",
                recurse=herk_rec, call_binders=CBH)
    # ---------------------------------------------------------------- trsm
    src = read("trsm.hpp")
    fs = list(functions(src, r"auto\s+trsm\s*\(\s*Context&&\s*ctxt\s*,\s*blas::side\s+a_side\s*,\s*blas::filling\s+a_fill\s*,\s*blas::diagonal\s+a_diag\s*,"))
    if len(fs) != 1:
        raise TranslateError(f"trsm: expected one full definition, found {len(fs)}")
    th, params, body, line = fs[0]
    vocab = mat_vocab("a", "a", False)
    vocab.update(mat_vocab("b", "b", False))
    ctx = Ctx("trsm", vocab, conj={"A2D": "a.cj", "B2D": "b.cj"})
    BT = "{R : Type} [CRing R] (nd : Bool) (side : Side) (fill : Filling) (diag : Diag) (alpha : R) (a b : Mat)"
    em.function("trsm", BT, "side fill diag alpha a b", ctx, parse_body(body, line), f"trsm.hpp:{line}", "solves op(tri A) X = alpha B / X op(tri A) = alpha B in place",
                call_binders="{R : Type} [CRing R] (side : Side) (fill : Filling) (diag : Diag) (alpha : R) (a b : Mat)")
    # ---------------------------------------------------------------- level 1
    B2 = "{R : Type} [CRing R] (nd : Bool) (alpha : R) (n : Int) (x y : Vec)"
    CB2 = "{R : Type} [CRing R] (alpha : R) (n : Int) (x y : Vec)"

    def one(fname, file, header_re, lean_name, voc, binders, args, doc, cbinders, conj=None, pick=None, gbinders=None):
        fs = list(functions(read(file), header_re))
        if pick:
            fs = [f for f in fs if pick(f)]
        if len(fs) != 1:
            raise TranslateError(f"{fname}: expected one definition, found {len(fs)}")
        th, params, body, line = fs[0]
        ctx = Ctx(lean_name, voc, conj=conj)
        em.function(lean_name, binders, args, ctx, parse_body(body, line), f"{file}:{line}", doc, call_binders=cbinders, guard_binders=gbinders)

    v = vec_vocab("first", "x"); v.update(vec_vocab("d_first", "y")); v["n"] = "n"
    one("axpy_n", "axpy.hpp", r"auto\s+axpy_n\s*\(\s*Context\s+ctxt\s*,", "axpy_n", v, B2, "alpha n x y", "y := alpha x + y on n elements", CB2)
    B1 = "{R : Type} [CRing R] (nd : Bool) (alpha : R) (n : Int) (x : Vec)"
    CB1 = "{R : Type} [CRing R] (alpha : R) (n : Int) (x : Vec)"
    BN2 = "{R : Type} [CRing R] (nd : Bool) (n : Int) (x y : Vec)"
    CBN2 = "{R : Type} [CRing R] (n : Int) (x y : Vec)"
    BN1 = "{R : Type} [CRing R] (nd : Bool) (n : Int) (x : Vec)"
    CBN1 = "{R : Type} [CRing R] (n : Int) (x : Vec)"
    v = vec_vocab("first", "x"); v["count"] = "n"
    one("scal_n", "scal.hpp", r"auto\s+scal_n\s*\(", "scal_n", v, B1, "alpha n x", "x := alpha x", CB1)
    v = vec_vocab("first", "x"); v.update(vec_vocab("d_first", "y")); v["n"] = "n"
    one("copy_n", "copy.hpp", r"auto\s+copy_n\s*\(\s*It\s+first\s*,", "copy_n", v, BN2, "n x y", "y := x", CBN2)
    v = vec_vocab("first", "x"); v.update(vec_vocab("first2", "y")); v["count"] = "n"
    one("swap_n", "swap.hpp", r"auto\s+swap_n\s*\(", "swap_n", v, BN2, "n x y", "x ↔ y", CBN2)
    v = vec_vocab("x_first", "x"); v.update(vec_vocab("y_first", "y")); v["count"] = "n"
    one("dot_n", "dot.hpp", r"auto\s+dot_n\s*\(\s*Context&&\s*ctxt\s*,", "dot_n", v, "{R : Type} [CRing R] (nd : Bool) (cplx : Bool) (n : Int) (x y : Vec)", "n x y",
        "selection of xDOT / xDOTU / xDOTC by element type and conjugation (xDOTC conjugates its FIRST argument)", CBN2, conj={"XIt": "x.cj", "YIt": "y.cj"}, gbinders="(cplx : Bool) (x y : Vec)")
    v = vec_vocab("x_first", "x"); v["count"] = "n"
    one("nrm2_n", "nrm2.hpp", r"auto\s+nrm2_n\s*\(\s*Context&&\s*ctxt\s*,", "nrm2_n", v, BN1, "n x", "reads the strided vector", CBN1)
    v = vec_vocab("first", "x"); v["n"] = "n"
    one("asum_n", "asum.hpp", r"auto\s+asum_n\s*\(", "asum_n", v, BN1, "n x", "reads the strided vector", CBN1)
    one("iamax_n", "iamax.hpp", r"auto\s+iamax_n\s*\(", "iamax_n", v, BN1, "n x", "reads the strided vector", CBN1)

    # ---------------------------------------------------------------- two front-end facts read by pattern
    core = read("core.hpp")
    if "legal_ld" in "".join(em.out) and not re.search(r"constexpr\s+auto\s+legal_ld\s*\(\s*Stride\s+stride\s*,\s*Size\s+rows\s*\)\s*->\s*Stride\s*\{\s*return\s+stride\s*<\s*static_cast<Stride>\(rows\)\s*\?\s*static_cast<Stride>\(rows\)\s*:\s*stride\s*;\s*\}", core):
        raise TranslateError("core.hpp: legal_ld is used but its definition is not `stride < rows ? rows : stride`")
    sites = [m.start() for m in re.finditer(r"BLAS\((?:s|c|z)gemv\)\('N', 1, n,", core)]
    if not sites:
        raise TranslateError("core.hpp: the xGEMV calls that implement dot/dotu were not found")
    guarded = [bool(re.search(r"if\s*\(\s*n\s*==\s*0\s*\)\s*\{\s*\*rp\s*=\s*R\{\}\s*;\s*return\s*;\s*\}\s*$", core[:i].rstrip())) for i in sites]
    dot_guard = all(guarded)
    gsrc = read("gemm.hpp")
    fs = list(functions(gsrc, r"auto\s+gemm\s*\(\s*ContextPtr\s+ctxtp\s*,\s*Scalar\s+s\s*,\s*A2D\s+const&\s*a\s*,\s*B2D\s+const&\s*b\s*\)"))
    if len(fs) != 1:
        raise TranslateError(f"gemm(ctxtp, s, a, b): expected one definition, found {len(fs)}")
    range_checks = bool(re.search(r"if\s*\(\s*!\s*a\.is_empty\(\)\s*\)\s*\{\s*assert\(\s*size\(~a\)\s*==\s*size\(\s*b\s*\)\s*\)\s*;\s*\}", fs[0][2]))
    em.out.append("/-- core.hpp: every xGEMV call that implements `dot` (float) / `dotu` (complex) is preceded by `if(n == 0) {*rp = R{}; return;}` -/\n"
                  f"def coreDotGemvGuardsEmpty : Bool := {'true' if dot_guard else 'false'}\n")
    em.out.append("/-- gemm.hpp: the lazy `gemm(ctxtp, s, a, b)` asserts `size(~a) == size(b)` for a non-empty `a` -/\n"
                  f"def gemmRangeChecksInner : Bool := {'true' if range_checks else 'false'}\n")

    text = ("/-\n  GENERATED by tools/gen_blas_dispatch.py from include/boost/multi/adaptors/blas/*.hpp — do not edit.\n"
            "  Regenerated on every run of `./check C13`; the committed copy is the translation of the pinned /repo tree.\n\n"
            "  Vocabulary: for a 2-D operand `a`:  a.s0 = a_first.stride() = stride(a);  a.s1 = (*a_first).stride() = stride(~a);\n"
            "  a.n0 = a_count = size(a);  a.n1 = (*a_first).size() = size(~a);  a.base = offset of a_first.base() / underlying(...) in the arena.\n"
            "  `nd` = the build defines NDEBUG (assert(...) vanishes).  Branch ordinals are canonical (sorted by guard text).\n-/\n"
            "import MultiModel.Blas\n\nnamespace Multi.Blas.Gen\nopen Multi.Blas\n\nset_option linter.unusedVariables false\n\n")
    text += "\n".join(em.out) + "\nend Multi.Blas.Gen\n"
    os.makedirs(os.path.dirname(OUT), exist_ok=True)
    open(OUT, "w").write(text)
    json.dump({"branches": em.table}, open(OUTJ, "w"), indent=1)
    print(f"gen_blas_dispatch: {len(em.table)} leaves in {len(set(t['function'] for t in em.table))} functions -> {os.path.relpath(OUT, HERE)}")


if __name__ == "__main__":
    try:
        main()
    except TranslateError as e:
        print("gen_blas_dispatch: the source no longer fits the translator:", e)
        sys.exit(2)
