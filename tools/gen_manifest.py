#!/usr/bin/env python3
"""Regenerates /verif/MANIFEST.json from tools/verif_props.py (claimed checks) and tools/not_applicable.json."""
import json, os, sys
HERE = os.path.dirname(os.path.dirname(os.path.abspath(__file__)))
sys.path.insert(0, os.path.join(HERE, "tools"))
import verif_props

def technique_of(c):
    gens = [g["script"] for g in c.get("generators", [])]
    base = "Lean 4 theorems (machine-checked proof) over an executable model"
    if gens:
        return (base + "; model parts regenerated from /repo's source on every run by " + ", ".join("tools/" + g for g in gens)
                + " with tie theorems (regenerated definition = hand model) as proof obligations; plus a differential correspondence run of the hand model against the real headers")
    return base + " written by hand + differential correspondence run against the real headers (the model's executable definitions and the implementation on the same generated operation sequences)"


props = [json.loads(l) for l in open(os.path.join(HERE, "properties.jsonl"))]
ids = [p["id"] for p in props]
checks = []
for pid in ids:
    if pid not in verif_props.PROPS:
        continue
    c = verif_props.PROPS[pid]
    checks.append({
        "property_id": pid,
        "quick_cmd": f"./check {pid} --tier quick",
        "thorough_cmd": f"./check {pid} --tier thorough",
        "evidence_file": f"/verif/evidence/{pid}.json",
        "replay_cmd_template": f"./check {pid} --replay {{path}}",
        "engine": "lean-model",
        "level_claimed": {"category": "proof", "text": c["level_text"], "design_ref": c.get("design_ref", "DESIGN.md §6 " + pid)},
        "level_note": c["level_note"],
        "technique": c.get("technique", technique_of(c)),
    })
na_path = os.path.join(HERE, "tools", "not_applicable.json")
na = json.load(open(na_path)) if os.path.exists(na_path) else {}
not_app = [{"property_id": pid, "reason": na.get(pid, "not yet covered by a check in this round (model and theorems under construction); no claim is made")} for pid in ids if pid not in verif_props.PROPS]
m = {
    "version": 1,
    "setup_cmd": "./check --setup",
    "hooks": {"guard": "BOOST_MULTI_VERIF", "enable": "no hook is needed: every observation point is public API, link-time interposition or a standard customisation point (allocator, element type, pointer type); the guard name is reserved",
              "baseline_off_cmd": "/verif/tools/run_baseline.sh", "source_commits": [], "add_only": True},
    "engines": [
        {"name": "lean-model", "path": "lean/", "serves_properties": [c["property_id"] for c in checks], "kind_free_text": "Lean 4 model (MultiModel), specification and theorems (MultiProofs), compiled driver mmdrv; orchestrated by ./check"},
        {"name": "harness", "path": "harness/", "serves_properties": [c["property_id"] for c in checks], "kind_free_text": "C++17 differential harnesses that drive the real headers of /repo and print the line protocol"},
    ],
    "checks": checks,
    "notes": "see DESIGN.md; known findings in known_findings.json; fixes of genuine defects are 'fix:' commits in /repo",
    "not_applicable": not_app,
}
json.dump(m, open(os.path.join(HERE, "MANIFEST.json"), "w"), indent=1)
print(f"{len(checks)} checks, {len(not_app)} not claimed")
