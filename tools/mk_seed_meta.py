#!/usr/bin/env python3
"""Maintenance helper: writes seeded/<dir>/meta.json.  usage: mk_seed_meta.py <dir> <property> <summary> <needs> <detected_by json> [ran...]"""
import json, sys
d, prop, summary, needs, det = sys.argv[1:6]
ran = sys.argv[6:] or [f"tools/try_seed.sh /verif/seeded/{d}/patch.diff {prop}"]
json.dump({"property": prop, "round": 2 if d.endswith("b") else 1, "summary": summary, "needs_to_manifest": needs,
           "source": "independent sub-agent given only the property text, a scratch worktree of /repo (current HEAD) and a one-line description of the first-round change to avoid",
           "confirmed": {"existing_tests": "78/78 pass with the change (ctest re-run by me in the scratch worktree)", "demo": "fails with the change, passes against /repo/include (demo_with.txt / demo_without.txt)"},
           "ran": ran, "detected_by": json.loads(det)}, open(f"/verif/seeded/{d}/meta.json", "w"), indent=1)
