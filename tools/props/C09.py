import ledger_common as lc
from props_common import TRUSTED_COMMON

PROP = {
    "lean_targets": ["MultiProofs.C09"],
    "lean_module": "MultiProofs.C09",
    "theorems": [
        "Multi.C09.fault_step",
        "Multi.C09.fault_safe_partial",
        "Multi.C09.fault_safe_fixed",
        "Multi.C09.no_alloc_when_not_needed",
        "Multi.C09.finding_F6_ctor_leaks_block",
        "Multi.C09.finding_F7_copy_assign_dangling",
        "Multi.C09.finding_F7_double_free",
        "Multi.C09.finding_F8_reextent_leaks_tmp",
        "Multi.C09.finding_T1_static_move_terminates",
        "Multi.Ledger.run_spec",
    ],
    "harnesses": [lc.ledger_harness("ledger", ["faults"], 48000, 480000, ["faults20"])],
    "hooks": ["oracle"],
    "trusted_base": TRUSTED_COMMON + lc.TRUSTED_LEDGER,
    "assumptions": ["a single injected failure per run: the k-th fallible step (allocation, element default/copy/move construction, element copy/move assignment) of the whole history throws",
                    "element type: the instrumented class type; allocator: all 16 trait configurations and std::pmr; zero-based extents; D = 1..3, and array<T,0> (about 7% of the programs; non-propagating allocators in the three select_on_container_copy_construction modes, std::pmr; int and Semi elements in the trivial modes) with the forms whose code mirrors the D >= 1 code of the model: construction from extensions / from an element, copy construction, copy assignment, assignment of an element, destruction; move construction and move assignment of a 0-D array (element-wise, source stays alive) are not exercised; the theorems assume 1 <= D (Cfg.OK), so for D = 0 the model is the executable reference of the correspondence only (validated, not proved)",
                    "after an array has been left in an invalid state only destructors are run (everything else is undefined behaviour)"],
    "rule": lc.RULE,
    "level_text": ("Theorems (every configuration, every pool satisfying the invariant, every operation, every injection point k): `fault_safe` — if the step raises, the exception reaches the caller "
                   "(no std::terminate), the invariant holds again (no leak, no double destroy/deallocate, every array valid) — is proved for the code as repaired by fixes/F6,F7,F8 (`fault_safe_fixed`) and, for the "
                   "code as it stands, for every operation outside the listed finding classes (`fault_safe_partial`); for each finding class the NEGATION is proved on a concrete witness (`finding_*`). "
                   "`no_alloc_when_not_needed`: same-extent assignment, assignment through views, swap, move, clear, reshape emit no allocation. "
                   "Correspondence: every history is re-run once per injection point in a forked ASan+UBSan child; event streams and outcomes (ok | threw | terminated | double-free | leak n) are compared with the model."),
    "level_note": ("Trusted: Lean kernel, the hand transcription MultiModel/Ledger.lean (validated by the fault-enumeration run), the modelled unwinding rules (handler of alloc_uninitialized_* destroys what it "
                   "built and rethrows; a constructor throwing from its body does not run ~static_array; noexcept functions terminate). Open findings F6, F7, F8 (repairs in fixes/), T1 (static_array move "
                   "constructor is noexcept but allocates) are suppressed by (operation class, fault step class) only."),
}


def nontrivial(prog_lines, answer_lines):
    return lc.nontrivial(prog_lines, answer_lines) and any(l.startswith("fault ") and not l.endswith("none") for l in prog_lines)


def finding_key(program, impl_lines, model_lines):
    return lc.finding_key("C09", program, impl_lines, model_lines)


def reproduce_finding(f, ctx):
    return lc.reproduce("C09", f, ctx)


def oracle(ctx):
    h = PROP["harnesses"][0]
    return lc.oracle("C09", ctx, h["modes_thorough"] if ctx.get("tier") == "thorough" else h["modes"])


def replay(payload, ctx):
    return lc.replay("C09", payload, ctx)
