"""C13 — BLAS adaptor: per-property configuration and hooks.

Streams: harness/blas.cpp (assertion-enabled build `blas`, and `blas_nd` built with -DNDEBUG) against the Lean driver
mmdrv_blas.  The driver executes the library AS IT IS (regenerated dispatch chains + reference BLAS semantics), so the two
answer streams agree even where the library is wrong; a disagreement means the model is not the code (or the real BLAS is
not the reference semantics).  Whether the library is RIGHT is decided per case by the `num` line (naive reference inside
the harness, the same verdict recomputed by the driver): the hook `classify_failures` collects every `num FAIL` case of the
run, asks `mmdrv_blas --key` for its class (function, canonical branch ordinal, size class) and reports each class that is
not an open finding as a violation with the failing program as replay.
"""
import os, json, time, subprocess, hashlib
from props_common import TRUSTED_COMMON

_T0 = time.time()
WORKERS = 16
LIBS = ["-Wl,--no-as-needed", "-lopenblas", "-ldl"]
ENV = {"OPENBLAS_NUM_THREADS": "1"}


def _h(name, flags):
    return {"name": name, "src": "blas.cpp", "flags": flags, "modes": ["mix"], "programs": {"quick": WORKERS * 12000, "thorough": WORKERS * 60000},
            "driver": "mmdrv_blas", "libs": LIBS, "env": ENV, "workers": WORKERS}


PROP = {
    "lean_targets": ["MultiProofs.C13"],
    "lean_module": "MultiProofs.C13",
    "theorems": [],   # filled below from THEOREMS
    "generators": [{"script": "gen_blas_dispatch.py"}],
    "harnesses": [_h("blas", ["-O1", "-g"]), _h("blas_nd", ["-O1", "-g", "-DNDEBUG"])],
    "hooks": ["classify_failures"],
    "trusted_base": TRUSTED_COMMON + [
        "tools/gen_blas_dispatch.py (translator of the dispatch chains; every recorded BLAS call of the differential run is compared with its output)",
        "reference semantics of the Fortran BLAS in lean/MultiModel/Blas.lean (netlib dgemm/dgemv/dsyrk/zherk/dtrsm incl. XERBLA parameter checks and quick returns), validated against OpenBLAS 0.3.21 on every case of the run",
        "hand transcription of the thin front ends and of the core.hpp checks in lean/MultiModel/BlasFront.lean",
        "exact integer-valued data (Gaussian integers): floating-point rounding is outside the claim",
    ],
    "assumptions": ["vector increments and strides are positive", "no overflow of BLAS int", "operand buffers do not overlap the output view",
                    "numerical rounding is not covered: data are exactly representable integers"],
    "rule": ("one program = one operation on generated operand views (recipe + descriptor read from the real view); the systematic part enumerates "
             "operation x operand variant (N/T/J/H) x padding x sizes 0..4 per dimension (plus non-unit strides for herk/syrk and mismatched inner sizes for the gemm range forms) independently of the seed, the random part draws element type, "
             "scalars, offsets, strided parents, sizes 0..4 and the range/operator forms; distinct = different program text; "
             "non-trivial = a BLAS routine was reached and the output view has >= 2 elements (or a scalar result was produced)"),
    "level_text": ("Theorems over the dispatch chains REGENERATED from gemm.hpp/gemv.hpp/herk.hpp/syrk.hpp/trsm.hpp and the level-1 front ends, for all sizes (incl. 0, 1), all "
                   "strides satisfying the view invariants, all scalars, any commutative ring with involution: EVERY leaf of gemm_n (4 overloads), gemv_n, syrk, herk (non-conjugated C) and dot issues a legal "
                   "call whose reference-BLAS post-state is the mathematical result on the logical contents and changes only the output view (one `_branch_k_ok` lemma per generated leaf, assembled by the "
                   "generated case-analysis principle); every xTRSM call is legal. This holds for the source WITH the 19 repairs fixes/C13-*.patch; a leaf that is wrong again makes its lemma fail to compile. "
                   "The model is tied to /repo by the translator and by a differential run of ~190k cases per build flavour with link-time interposed BLAS."),
    "level_note": ("Trusted: Lean kernel; the translator; the reference BLAS semantics (validated against OpenBLAS); hand-written front ends. The 148 failing classes found in the unrepaired adaptor are "
                   "recorded as fixed findings (findings/C13.json, each with the patch that closes it); any failing class of a run is now a violation. trsm: legality proved, the solution itself validated by the "
                   "differential run only; over-rejection (throw / assert on layouts BLAS could express by another call) is permitted by C13 and listed in docs/C13.md."),
}


def nontrivial(prog_lines, answer_lines):
    called = any(l.startswith("call ") for l in answer_lines)
    big = False
    for l in answer_lines:
        w = l.split()
        if len(w) >= 2 and w[0] == "vals" and w[1].isdigit() and int(w[1]) >= 2:
            big = True
        if w and w[0] == "rval":
            big = True
    return called and big


def finding_key(program, impl_lines, model_lines):
    """a DISAGREEMENT between the real library and the model is never a known finding"""
    op = "?"
    for l in program:
        if l.startswith("x "):
            op = l.split()[1]
    return "C13:model-disagreement:" + op


# ------------------------------------------------------------------------------------------------ failure classes
def _split(path):
    out, cur = [], None
    if not os.path.exists(path):
        return out
    for l in open(path, errors="replace"):
        l = l.rstrip("\n")
        if l.startswith("prog "):
            if cur is not None:
                out.append(cur)
            cur = [l]
        elif cur is not None and l:
            cur.append(l)
    if cur is not None:
        out.append(cur)
    return out


def keys_of(drv, programs):
    """[(key, info dict)] for a list of programs (each a list of lines), from `mmdrv_blas --key`"""
    if not programs:
        return []
    text = "\n".join("\n".join(p) for p in programs) + "\n"
    p = subprocess.run([drv, "--key"], input=text, stdout=subprocess.PIPE, stderr=subprocess.PIPE, text=True, timeout=3600)
    out = []
    for l in p.stdout.split("\n"):
        if l.startswith("key "):
            w = l.split()
            info = dict(x.split("=", 1) for x in w[2:] if "=" in x)
            out.append((w[1], info))
    return out


def failure_key(key, info, num_line):
    if "accepted-mismatch" in num_line:
        return "C13:%s:accepted-mismatch" % info.get("op", "?")
    return key


def in_domain(flavour_nd, info):
    """NDEBUG build: a case that an assertion-enabled build stops with a plain assert(...) is outside the property's domain
    ("rejected by an exception, or by an assertion in assertion-enabled builds")"""
    return not (flavour_nd and info.get("dbg") == "assert")


def collect_failures(build, drv, names=("blas", "blas_nd"), newer_than=None):
    """every `num FAIL` program of the streams in `build`, classified: {key: {count, example program, num, info, harness}}"""
    classes, stats = {}, {"programs": 0, "failing": 0, "skipped_out_of_domain": 0, "per_kind": {}}
    for name in names:
        nd = name.endswith("_nd")
        fails = []
        for w in range(WORKERS):
            pp = os.path.join(build, f"prog.{name}.mix.{w}.txt")
            ip = os.path.join(build, f"impl.{name}.mix.{w}.out")
            if not (os.path.exists(pp) and os.path.exists(ip)):
                continue
            if newer_than is not None and os.path.getmtime(ip) < newer_than - 5:
                continue
            P, A = _split(pp), _split(ip)
            stats["programs"] += len(P)
            for p, a in zip(P, A):
                num = [l for l in a if l.startswith("num ")]
                if num and "FAIL" in num[-1]:
                    fails.append((p, a, num[-1]))
        ks = keys_of(drv, [f[0] for f in fails])
        for (p, a, num), (key, info) in zip(fails, ks):
            if not in_domain(nd, info):
                stats["skipped_out_of_domain"] += 1
                continue
            stats["failing"] += 1
            k = failure_key(key, info, num)
            kind = num[9:]
            stats["per_kind"][kind] = stats["per_kind"].get(kind, 0) + 1
            c = classes.setdefault(k, {"count": 0, "program": p, "answers": a, "num": num, "info": info, "harness_name": name, "kinds": {}, "layouts": {}})
            c["count"] += 1
            c["kinds"][kind + "/" + info.get("kind", "?")] = c["kinds"].get(kind + "/" + info.get("kind", "?"), 0) + 1
            c["layouts"][info.get("lay", "?")] = c["layouts"].get(info.get("lay", "?"), 0) + 1
    return classes, stats


def classify_failures(ctx):
    drv = ctx["drv_path"]("mmdrv_blas")
    classes, stats = collect_failures(ctx["build"], drv, newer_than=_T0)
    viol = []
    for k, c in sorted(classes.items()):
        viol.append({"key": k, "failing_input": True, "program": [x for x in c["program"] if x], "harness": "blas.cpp", "harness_name": c["harness_name"], "mode": "mix",
                     "observed_impl": c["answers"], "what": f"{c['num']} in class {k} ({c['count']} cases this run; kinds {c['kinds']})",
                     "note": "the real library's result differs from the naive reference on exact data (or elements outside the output view changed); the Lean model predicts the same wrong result"})
    stats["failing_classes"] = len(classes)
    return {"violations": viol, "stats": stats, "obligations": 0, "discharged": 0}


def replay_fails(payload, impl_lines, model_lines):
    return any(l.startswith("num FAIL") for l in impl_lines)


def reproduce_finding(f, ctx):
    """re-run the witness program of an open finding on the already built harness; True if the library still fails on it"""
    w = f.get("witness", {})
    if w.get("kind") != "program":
        return True
    name = w.get("harness_name", "blas")
    exe = os.path.join(ctx["build"], name)
    if not os.path.exists(exe):
        h = [x for x in ctx["cfg"]["harnesses"] if x["name"] == name][0]
        exe, _ = ctx["build_harness"](ctx["pid"], h)
        if exe is None:
            return True
    tag = "finding." + hashlib.md5(f.get("key", "").encode()).hexdigest()[:8]
    il, ml, crashed, _ = ctx["replay_program"](exe, "mix", w["program"], ctx["build"], tag, "mmdrv_blas")
    return crashed or any(l.startswith("num FAIL") for l in il)


THEOREMS_FILE = os.path.join(os.path.dirname(os.path.abspath(__file__)), "C13.theorems.txt")
if os.path.exists(THEOREMS_FILE):
    PROP["theorems"] = [l.strip() for l in open(THEOREMS_FILE) if l.strip() and not l.startswith("#")]
