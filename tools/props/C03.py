from props_common import GEN_ITERS_TRUST, GEN_STORE_TRUST, TRUSTED_COMMON


def nontrivial(prog_lines, answer_lines):
    """a case is non-trivial when a real algorithm ran on a view (any `x algo` line) built by at least one view operation"""
    return any(l.startswith("x algo") for l in prog_lines) and any(l.startswith("v ") for l in prog_lines)


def algo_histogram(ctx):
    """coverage statistics of the generated cases: algorithm x range kind (read back from the program files of this run)"""
    import glob, os
    hist = {}
    tr = {}
    for f in glob.glob(os.path.join(ctx["build"], "prog.algos.*.txt")):
        for l in open(f):
            w = l.split()
            if len(w) > 3 and w[0] == "x" and w[1] == "algo":
                k = w[2] + ":" + w[3]
                hist[k] = hist.get(k, 0) + 1
            elif len(w) > 3 and w[0] == "x" and w[1] == "tr":
                tr[w[2]] = tr.get(w[2], 0) + 1
    return {"stats": {"cases_per_algorithm_and_range_kind": dict(sorted(hist.items())), "algorithms_covered": len({k.split(":")[0] for k in hist}),
                      "transcription_cases_std_vector_vs_lean_program": dict(sorted(tr.items()))}, "violations": []}


PROP = {
    "generators": [{"script": "gen_iters.py"}, {"script": "gen_store.py"}],
    "hooks": ["algo_histogram"],
    "lean_targets": ["MultiProofs.C03", "MultiProofs.GenTieIter", "MultiProofs.GenTieStore"],
    "lean_module": "MultiProofs.C03",
    "theorems": [
        "Multi.GenTieIter.array_iterator_is_the_code",
        "Multi.GenTieIter.elements_iterator_is_the_code",
        "Multi.GenTieStore.assignment_is_the_code",
        "Multi.GenTieStore.comparison_is_the_code",
        "Multi.C03.proxy_refines_seq",
        "Multi.C03.elements_refines_seq",
        "Multi.C03.positions_are_integers",
        "Multi.C03.revProg_list",
        "Multi.C03.revProg_rows",
        "Multi.C03.algo_reverse_on_views",
        "Multi.C03.algo_fill_on_views",
        "Multi.C03.algo_copy_n_on_views",
        "Multi.C03.algo_copy_on_views",
        "Multi.C03.algo_move_on_views",
        "Multi.C03.algo_copy_backward_on_views",
        "Multi.C03.algo_swap_ranges_on_views",
        "Multi.C03.algo_transform_on_views",
        "Multi.C03.algo_transform_inplace_on_views",
        "Multi.C03.algo_find_on_views",
        "Multi.C03.algo_equal_on_views",
        "Multi.C03.algo_accumulate_on_views",
        "Multi.C03.algo_is_sorted_on_views",
        "Multi.C03.algo_lexicographical_compare_on_views",
        "Multi.C03.algo_remove_on_views",
        "Multi.C03.algo_partition_on_views",
        "Multi.C03.algo_unique_on_views",
        "Multi.C03.algo_sort16_on_views",
        "Multi.C03.algo_reverse_on_elements",
        "Multi.C03.algo_fill_on_elements",
        "Multi.C03.algo_copy_on_elements",
        "Multi.C03.algo_find_on_elements",
        "Multi.C03.algo_accumulate_on_elements",
        "Multi.C03.algo_partition_on_elements",
        "Multi.C03.algo_unique_on_elements",
        "Multi.C03.algo_sort16_on_elements",
    ],
    "harnesses": [{"name": "algos", "src": "algos.cpp", "flags": ["-O0"], "modes": ["all"], "programs": {"quick": 16000, "thorough": 800000}, "driver": "mmdrv_store"}],
    "trusted_base": TRUSTED_COMMON + GEN_ITERS_TRUST + GEN_STORE_TRUST + [
        "MultiProofs/AlgoProgs.lean: hand transcriptions of 17 libstdc++ loops (g++ 12 bits/stl_algobase.h, stl_algo.h, stl_numeric.h) as interface programs; that libstdc++ runs these programs is trusted and validated on every run by the `x tr` lines: the real std:: algorithm on a std::vector<long> against the transcription run by the Lean driver (Driver/AlgoTr.lean) on the same values — position and contents cell for cell, including the unspecified cells behind the position returned by remove/unique and the exact arrangement partition produces",
        "libstdc++'s algorithms are NOT verified: that each of the 20 listed algorithms interacts with its range only through the interface of MultiProofs/SeqSpec.lean (iterator arithmetic, read, write, assign, swap) is an assumption, validated by the differential run against std::vector of independent values",
        "for the C03 stream the Lean driver only echoes `algo ok`: the oracle is the reference computed inside harness/algos.cpp (same std:: algorithm on std::vector<int> / std::vector<multi::array<int, D-1>>), as DESIGN §6 C03 prescribes",
    ],
    "assumptions": ["index arithmetic does not overflow ptrdiff_t", "element type int, raw pointers",
                    "rows have at least one element when D >= 2 (a decayed copy of an empty row has collapsed extents and compares unequal to the row: the empty-operand corner set aside by C07's statement); elements past the position returned by remove/unique/move are unspecified and not compared",
                    "comparisons made by an algorithm depend only on the values read (for rows: C07 lt_is_lex / eq_iff)"],
    "rule": ("cases = algorithm (20 listed) x range kind {begin()/end() rows, elements()} x view {plain array, sub-block / strided / permuted-axes view embedded in a larger array, random walk of C01 operations} "
             "x D 1..3 x leading size 0..8 x data with duplicates (modulus 2..6) x position arguments; each case runs the real algorithm on the view and on std::vector of independent values and compares contents, "
             "returned position and every storage cell outside the written view(s) including guard cells; plus 1..3 transcription cases per program (x tr: one of the transcribed loops x length 0..12 x values with duplicates x valid positions; std::vector<long> against the Lean program, all cells); distinct = different program text; non-trivial = at least one algorithm case on a view built by >= 1 operation"),
    "level_text": "Theorem proxy_refines_seq (all D >= 1, every well-formed injective view, every program over the proxy interface whose next step may depend on all values read): running the program on memory through begin()/end() proxies (decay read, deep assignment = C05, swap, iterator arithmetic = C02) and then abstracting the rows equals abstracting and running on a list of independent values, with the same returned position and all memory outside the view unchanged; elements_refines_seq: the same through the flat elements() range; positions_are_integers; For 17 algorithms whose libstdc++ implementation is a simple loop (reverse, fill, copy_n, copy, move, copy_backward, swap_ranges, transform, find/find_if, equal, accumulate, is_sorted, lexicographical_compare, remove/remove_if, partition [bidirectional version: result is a permutation, returned position = number of rows satisfying p, all before satisfy p, none after], unique [prefix = input with every row equal to the last kept one dropped], sort on ranges of at most 16 rows [libstdc++'s __insertion_sort; for a strict weak order the result is a sorted permutation]) the loop is hand-transcribed as an interface program (MultiProofs/AlgoProgs.lean, trusted), its meaning on independent values is proved (AlgoLemmas.lean) and its in-place effect on every well-formed injective view follows (algo_<name>_on_views, and on elements() for reverse, fill, copy, find, accumulate, partition, unique, sort<=16); each transcription is compared with libstdc++ itself on every run (x tr lines). All 20 listed algorithms are validated differentially (algorithm x view kinds x data against std::vector); sort on more than 16 rows, stable_sort, partial_sort, nth_element, rotate are validated only.",
    "level_note": "PARTIAL by design (DESIGN §6 C03): proved = the interface refinement for arbitrary interface programs; proved for hand transcriptions (trusted to be what libstdc++ runs; validated differentially) = reverse, fill, copy_n, copy, move, copy_backward, swap_ranges, transform, find, equal, accumulate, is_sorted, lexicographical_compare, remove, partition, unique, sort (at most 16 rows); two-range algorithms are stated for two blocks of rows of ONE view (the interface has one sequence; view-to-view copies are C05); validated only (differential run, reference computed in the harness) = sort on more than 16 rows, stable_sort, partial_sort, nth_element, rotate, and that libstdc++'s code is an interface program at all. Trusted: Lean kernel (+propext, Classical.choice, Quot.sound), transcription MultiModel/{Iter,Store}.lean, Int for ptrdiff_t.",
}
