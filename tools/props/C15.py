from props_common import TRUSTED_COMMON

PROP = {
    "lean_targets": ["MultiProofs.C15"],
    "lean_module": "MultiProofs.C15",
    "theorems": [
        "Multi.C15.plan_fields",
        "Multi.C15.plan_is_logical_dft",
        "Multi.C15.input_preserved",
        "Multi.C15.roundtrip_scales",
        "Multi.C15.front_ends",
        "Multi.dft_inversion",
    ],
    "hooks": ["count_large_sizes"],
    "harnesses": [
        {"name": "fftw", "src": "fftw.cpp", "flags": ["-O1", "-g"], "libs": ["-lfftw3", "-ldl"], "modes": ["x"], "driver": "mmdrv_fft",
         "programs": {"quick": 16000, "thorough": 720000}},
    ],
    "trusted_base": TRUSTED_COMMON + [
        "FFTW's guru interface contract (GuruPost in MultiModel/Fftw.lean): after fftw_execute_dft every output location holds sum_n in[n,b]*prod_d w(N_d, sign*j_d*n_d) of the pre-state and no other location changes (FFTW_PRESERVE_INPUT); validated numerically against an O(N^2) reference in every run",
        "link-time interposition of fftw_plan_guru64_dft / fftw_execute_dft (dlsym RTLD_NEXT) shows exactly what the adaptor passes",
        "orthogonality of exp(2 pi i k/N) (hypothesis Orth of roundtrip_scales); floating-point rounding is outside the theorems",
    ],
    "assumptions": [
        "input and output views are well formed (C01) and have equal extents (asserted by fftw_plan_dft); sign is -1 or +1",
        "FFTW's contract presupposes an injective output address map (true of every view reachable without broadcasted/strided(0))",
        "extents >= 1 (FFTW returns a null plan for empty transforms; the adaptor asserts on it)",
        "in-place use = the library's own in-place overload (output view identical to the input view)",
    ],
    "rule": ("programs = common extents (D 1..4, sizes 1..9 incl. non-powers of two, <= 360 elements; in about 4% of the programs one dimension of size 16|17|32|33|64|65|128|129 with the others 1..3) + an input and an output view carved from two roots by random "
             "rotations/transpositions/reversal, padding (sliced) and strides + 1..3 transforms (mask drawn from all 2^D subsets, both signs, API dft / dft_forward|backward / "
             "in-place overload / forward-backward round trip); distinct = different program text; non-trivial = some transform over >= 2 points"),
    "level_text": "Theorems (all D, all masks, both signs, all pairs of well-formed views of equal extents with arbitrary strides, in-place included; coefficient type and twiddle family abstract): the guru call built by fftw_plan_dft pairs every size with its own input and output stride and puts exactly the masked dimensions into dims; under FFTW's documented guru semantics the post-state of the output view is the direct unnormalised DFT of the input VIEW along exactly the masked dimensions, batched over the others, and memory outside the output view (hence a distinct input) is unchanged; from orthogonality of the twiddles, forward followed by backward multiplies every element by the number of transformed points (proved for all D via a separable inversion argument over a commutative ring). The model is tied to /repo by interposed capture of the real guru call plus an O(N^2) reference, guard and input checks.",
    "level_note": "Partial in the stated sense: exact-arithmetic proof of the plan under FFTW's contract (trusted, validated numerically each run); floating-point rounding and FFTW's internal correctness are outside. The printed plan is canonical (dimension order within a group and strides of size-1 dimensions are not compared: they do not affect the transform), so a harmless reordering such as std::partition instead of std::stable_partition does not alarm.",
}


def nontrivial(prog_lines, answer_lines):
    has_x = any(l.startswith("x ") for l in prog_lines)
    big = False
    for l in answer_lines:
        if l.startswith("plan "):
            try:
                dims = l.split("|")[0].split(":")[1].split()
                n = 1
                for d in dims:
                    n *= int(d.split(",")[0])
                if n >= 2:
                    big = True
            except Exception:
                pass
    return has_x and big


def finding_key(program, impl_lines, model_lines):
    xs = sorted({l.split()[1] + l.split()[-1] for l in program if l.startswith("x ")})
    kind = "?"
    for a, b in zip(impl_lines, model_lines):
        if a != b:
            kind = (a.split() or ["?"])[0]
            break
    return f"C15:{'+'.join(xs)}:{kind}"


def _observable(lines):
    """everything but the captured FFTW plan (how the adaptor describes the transform to FFTW is implementation detail: two different
    guru plans can denote the same transform); the property is about the numbers that come out and the frame"""
    return [l for l in lines if not (l.startswith("plan ") or l.startswith("unexpected "))]


def property_fails(impl_lines, model_lines):
    return _observable(impl_lines) != _observable(model_lines)


def count_large_sizes(ctx):
    """how many transforms with a dimension of size >= 16 (around powers of two up to 129) the run made: size-dependent shortcuts in
    the adaptor can only be seen beyond the small sizes"""
    import glob, os
    total, transformed, by_n = 0, 0, {}
    for f in glob.glob(os.path.join(ctx["build"], "impl.fftw.*.out")):
        for l in open(f, errors="replace"):
            if not l.startswith("plan "):
                continue
            try:
                parts = l.split("|")
                dims = [int(t.split(",")[0]) for t in parts[0].split(":")[1].split()]
                hm = [int(t.split(",")[0]) for t in parts[1].split(":")[1].split()]
            except (ValueError, IndexError):
                continue
            big = [n for n in dims + hm if n >= 16]
            if big:
                total += 1
                by_n[str(max(big))] = by_n.get(str(max(big)), 0) + 1
                if any(n >= 16 for n in dims):
                    transformed += 1
    stats = {"plans_with_a_dimension_ge_16": total, "of_which_transformed_along_it": transformed, "by_size": dict(sorted(by_n.items(), key=lambda kv: int(kv[0])))}
    if transformed < 100:
        return {"violations": [{"key": "C15:generator:large-sizes-not-reached", "what": f"only {transformed} transforms along a dimension of size >= 16: size-dependent code paths are not exercised"}],
                "stats": stats, "obligations": 1, "discharged": 0}
    return {"violations": [], "stats": stats, "obligations": 1, "discharged": 1}
