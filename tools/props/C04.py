import value_common as vc
from props_common import TRUSTED_COMMON

PROP = {
    "lean_targets": ["MultiProofs.C04"],
    "lean_module": "MultiProofs.C04",
    "theorems": [
        "Multi.C04.swap_exchanges",
    ],
    "harnesses": [vc.value_harness(["int", "str", "int+full", "str+full"], 4000, 160000)],
    "hooks": ["compile_probes", "op_histogram"],
    "trusted_base": TRUSTED_COMMON + [
        "element conversions between the two element types of the run (long -> int, int -> Str) are the identity on the integer image",
        "harness/value.cpp's reference model (extents + flat std::vector, written from the documentation) as a second oracle inside the run",
    ],
    "assumptions": ["index arithmetic does not overflow ptrdiff_t", "std::allocator (allocator identity / propagation: C10)", "no exception is thrown (C09)",
                    "assignment from a view that aliases the destination is excluded (README: undefined)"],
    "rule": vc.VALUE_RULE,
    "level_text": "PLACEHOLDER",
    "level_note": "PLACEHOLDER",
}


def nontrivial(prog_lines, answer_lines):
    return vc.nontrivial(prog_lines, answer_lines)


def finding_key(program, impl_lines, model_lines):
    return vc.finding_key("C04", program, impl_lines, model_lines)


def reproduce_finding(f, ctx):
    return vc.reproduce_finding(f, ctx)


def compile_probes(ctx):
    return vc.compile_probes(ctx, ["VALUE_HAVE_ZERO_D"])


def op_histogram(ctx):
    return vc.op_histogram(ctx)
