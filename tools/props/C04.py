import value_common as vc
from props_common import TRUSTED_COMMON

PROP = {
    "lean_targets": ["MultiProofs.C04"],
    "lean_module": "MultiProofs.C04",
    "theorems": [
        "Multi.C04.abs_step",
        "Multi.C04.abs_history",
        "Multi.C04.abs_history_from_empty",
        "Multi.C04.observed_is_abstract",
        "Multi.C04.independent",
        "Multi.C04.write_invisible",
        "Multi.C04.copy_independent",
        "Multi.C04.move_leaves_empty_valid",
        "Multi.C04.move_assign_leaves_empty_valid",
        "Multi.C04.self_assign_id",
        "Multi.C04.swap_exchanges",
        "Multi.C04.view_ctor_copies",
        "Multi.C04.abs_step_views",
        "Multi.C04.abs_step_conv_stdswap",
        "Multi.C04.abs_step_lists",
    ],
    "harnesses": [vc.value_harness(["int", "str", "int+full", "str+full", "int+perm", "str+perm"], 4000, 160000)],
    "hooks": ["compile_probes", "op_histogram"],
    "trusted_base": TRUSTED_COMMON + [
        "element conversions between the two element types of the run (long -> int, int -> Str) are the identity on the integer image",
        "harness/value.cpp's reference model (extents + flat std::vector, written from the documentation) as a second oracle inside the run",
    ],
    "assumptions": ["index arithmetic does not overflow ptrdiff_t", "std::allocator (allocator identity / propagation: C10)", "no exception is thrown (C09)",
                    "assignment from a view that aliases the destination is excluded (README: undefined)"],
    "rule": vc.VALUE_RULE,
    "level_text": "Theorems (all D >= 1, all extents incl. empty and non-zero index bases, all finite in-domain histories, any element type given by (is_trivially_default_constructible, T{})): EVERY operation of array.hpp as transcribed in MultiModel/Owning.lean - construction from extents / fill / copy / iterator range / nested initializer lists / a view of any layout (any chain of in-domain C01 view operations), move construction, move and copy assignment over any prior state, assignment from a view (both operator= overloads incl. the reshape shortcut), from an array of another element type (three branches), from nested lists / ranges (in place or not), swap, std::swap, clear, reshape, assign(extensions, v), the three reextent overloads, element write, destruction - commutes with the abstraction 'extents + elements in canonical order' and keeps the pool invariant (valid arrays, pairwise distinct blocks); by induction every history does; the abstraction is what the run prints; copies are independent, moves transfer the block and leave an empty valid source, self-assignment is the identity, swap exchanges. No partial theorem remains for D >= 1.",
    "level_note": "Trusted: Lean kernel (+propext, Classical.choice, Quot.sound); the hand transcription MultiModel/Owning.lean (the code AFTER the six fix: commits recorded in findings/C04.json), validated by the differential run over histories of up to 40 operations with int and a std::string-holding element type; Int for ptrdiff_t; conversions between element types are the identity on values; assignment from a view that aliases the target is excluded (README: undefined). Not claimed here: construction/destruction counts, allocator propagation, exceptions (C08-C10); D = 0 arrays are covered by the run, not by theorems.",
}


def nontrivial(prog_lines, answer_lines):
    return vc.nontrivial(prog_lines, answer_lines)


def finding_key(program, impl_lines, model_lines):
    return vc.finding_key("C04", program, impl_lines, model_lines)


def reproduce_finding(f, ctx):
    return vc.reproduce_finding(f, ctx)


def compile_probes(ctx):
    return vc.compile_probes(ctx, ["VALUE_HAVE_ZERO_D"])


def op_histogram(ctx):
    return vc.op_histogram(ctx)
