from props_common import TRUSTED_COMMON, VIEW_RULE, views_harness

PROP = {
    "lean_targets": ["MultiProofs.C02"],
    "lean_module": "MultiProofs.C02",
    "theorems": [
        "Multi.C02.arrit_laws",
        "Multi.C02.begin_end_delimit",
        "Multi.C02.arrit_deref",
        "Multi.C02.elemit_mk",
        "Multi.C02.begin_end_good",
        "Multi.C02.elemit_inc",
        "Multi.C02.elemit_dec",
        "Multi.C02.elemit_add",
        "Multi.C02.elemit_deref",
        "Multi.C02.elemit_laws",
        "Multi.C02.range_index",
    ],
    "harnesses": [views_harness(["c02"], 4800, 320000)],
    "trusted_base": TRUSTED_COMMON + ["const vs mutable iterator types are not distinguished in the model: 'const and mutable iterators to one position compare equal' is observed by the harness on the real iterators only"],
    "assumptions": ["index arithmetic does not overflow ptrdiff_t", "element type int, raw pointers (other pointer types: C11)",
                    "begin()/end() laws need a non-zero leading stride: a view obtained by partitioned/chunked/halved of an EMPTY view has stride 0, iterator subtraction divides by it (asserted precondition in the library); such views are reported as 'iter stride0' by both sides and skipped"],
    "rule": VIEW_RULE + "; per queried view the harness evaluates every law at every position 0..size and every offset staying inside [begin, end] on the real iterators (a failed law prints a LAW-VIOLATION line)",
    "level_text": "Theorems: array_iterator obeys the random-access laws for every non-zero stride, begin()/end() delimit size() positions and *(begin()+n) is the n-th sub-view; for elements() one invariant (index tuple = from_linear(position)) is established by the constructor and preserved by ++, --, +=, -=, [] and assignment for every well-formed layout of any dimensionality, hence all laws hold as equalities of iterator states and position k is the element of row-major rank k whatever the strides. Tied to /repo by the differential run of the laws on the real iterators.",
    "level_note": "Trusted: Lean kernel (+propext, Classical.choice, Quot.sound), the transcription MultiModel/Iter.lean (validated by the correspondence run), Int for ptrdiff_t. Constness of iterator types and the zero-stride corner are outside the theorems (see assumptions).",
}
