"""C16 — const-ness propagates.  Translator = the C++ compiler (tools/gen_const_table.py), theorems in lean/MultiProofs/C16.lean,
hook `const_table` = search for a failing input + validation of sampled table paths against real multi-step expressions."""
import os, re, json, random, collections, subprocess, concurrent.futures as cf
from props_common import TRUSTED_COMMON

PROP = {
    "lean_targets": ["MultiProofs.C16"],
    "lean_module": "MultiProofs.C16",
    "theorems": [
        "Multi.C16.certificate_ok",
        "Multi.C16.const_never_writable",
        "Multi.C16.mutable_paths_writable",
        "Multi.C16.views_not_rebindable",
        "Multi.C16.named_view_not_copyable",
    ],
    "generators": [{"script": "gen_const_table.py"}],
    "harnesses": [],
    "hooks": ["const_table"],
    "trusted_base": [
        TRUSTED_COMMON[0],
        "g++ 12.2 as the translator: decltype / overload resolution / template instantiation of the real headers define the table "
        "(lean/MultiModel/Gen/ConstTable.lean is regenerated from the working tree on every run, nothing cached)",
        "the type of a C++ expression depends only on the types and value categories of its operands (std::declval<State>() represents a state); "
        "validated on every run by compiling sampled multi-step expressions on real objects and comparing their decltype with the table",
        "tools/gen_const_table.py + tools/gen_const_lean.py (probe generation, __PRETTY_FUNCTION__ names as state identities, classification of states "
        "into element / view / owning / range / handle by what the type can do)",
        "assignment or swap of a handle (iterator, cursor, pointer, subarray_ptr) rebinds the handle and is not counted as an element write",
    ],
    "assumptions": [
        "element type int, raw pointers; D <= 3 (quick) / D <= 4 (thorough): operations whose result has a larger D leave the table and are counted",
        "op alphabet = tools/gen_const_table.py:OPS with representative arguments (0, {0,2}, 2, ALL): the result TYPE does not depend on argument values",
        "paths through an edge named by an open finding (findings/C16.json) are excluded from the theorems and reported as KNOWN-FINDING",
    ],
    "rule": ("states = (type, value category) reached from the roots by the op alphabet, edges = one trial compilation each (ODR-instantiated); "
             "sampled paths = seeded random walks through the table re-compiled as real expressions on real objects; distinct = different (root, op sequence); "
             "non-trivial = length >= 2"),
    "technique": "C++ compiler as translator (exact finite type-state transition system, regenerated per run) + Lean 4 closure certificate and all-depth induction",
    "level_text": "Theorems over the regenerated exact type table: nothing reachable from a const array / const-qualified view / const_iterator by an access path of ANY length is a modifiable element reference or pointer or accepts assignment, fill, swap or elements()=; the access paths named in the property from non-const roots end in modifiable references; views are not rebindable by assignment; named views are not copy-constructible.",
    "level_note": "Trusted: Lean kernel (+propext, Quot.sound), g++'s decltype/instantiation as the translator, the probe generator. Bounds: int elements, raw pointers, D <= 4 (quick: D <= 3 and the ops named in the property). The edges of the one open finding (array_iterator<T, D >= 2, ..., IsConst = true>::base() returns the mutable element pointer) are cut out of the table and reported as KNOWN-FINDING; the other holes (origin(), const_subarray_ptr::base(), operator& of const views) and the over-const front/back/reversed/chunked were repaired in /repo.",
}

HERE = os.path.dirname(os.path.dirname(os.path.dirname(os.path.abspath(__file__))))
EXT = 6


# ------------------------------------------------------------------------------------------------ expressions on real objects
def root_decls(D, sfx="", fill=1):
    x = ", ".join([str(EXT)] * D)
    return f"""  multi::array<int, {D}> M{sfx}(multi::extensions_t<{D}>{{{x}}}, {fill});
  multi::static_array<int, {D}> SM{sfx}(multi::extensions_t<{D}>{{{x}}}, {fill});
  auto const& CA{sfx} = M{sfx}; auto const& CSA{sfx} = SM{sfx};
  multi::array_ref<int, {D}> AR{sfx}(M{sfx}.data_elements(), M{sfx}.extensions()); auto const& CAR{sfx} = AR{sfx};
  auto&& V{sfx} = M{sfx}({{0, 4}}); auto const& CV{sfx} = M{sfx}({{0, 4}});
"""


def root_expr(label, sfx=""):
    role = label.split("&")[0].strip()
    D = int(re.search(r"(\d)", label).group(1))
    const = "const" in label.split("(")[0]
    rv = label.strip().endswith("&&")
    if label.startswith("array_ref"):
        e = ("CAR" if const else "AR") + sfx
    elif label.startswith("static_array"):
        e = ("CSA" if const else "SM") + sfx
    elif label.startswith("array"):
        e = ("CA" if const else "M") + sfx
        if rv:
            e = f"std::move(M{sfx})"
    elif label.startswith("view"):
        e = ("CV" if const else "V") + sfx
    elif label.startswith("const_iterator"):
        e = f"M{sfx}.cbegin()"
    elif label.startswith("iterator"):
        e = f"M{sfx}.begin()"
    else:
        raise ValueError(label)
    return D, e


class Table:
    def __init__(self, tab):
        self.t = tab
        self.S = tab["states"]
        self.ops = tab["ops"]
        self.opid = {o: i for i, o in enumerate(self.ops)}
        self.pretty = tab["op_pretty"]
        self.adj = collections.defaultdict(list)
        for s, o, d in tab["edges"]:
            self.adj[s].append((o, d))
        self.root_label = {}
        for r in tab["roots"]:
            self.root_label.setdefault(r["state"], r["label"])

    def full_path(self, state, ops):
        """(root state with a label, ops) for a path that starts at any state: prepend the state's own discovery path"""
        st = self.S[state]
        return st["path"]["root"], list(st["path"]["ops"]) + list(ops)

    def cpp(self, root, ops, sfx=""):
        """returns (D, [statements], expression) for root label + ops on real objects"""
        D, e = root_expr(self.root_label[root], sfx)
        stmts, nb = [], 0
        for o in ops:
            if o in ("bind_fwd", "bind_const"):
                nb += 1
                stmts.append(f"  auto{' const' if o == 'bind_const' else ''}{'&&' if o == 'bind_fwd' else '&'} b{nb}{sfx} = {e};")
                e = f"b{nb}{sfx}"
            else:
                e = self.pretty[o] % e
        return D, stmts, e

    def to_elem_mut(self, s):
        """shortest op sequence from state s to an elem_mut state (BFS over the table)"""
        EM = self.t["facts"]["elem_mut"]
        if EM[s]:
            return []
        pred = {s: None}
        dq = collections.deque([s])
        while dq:
            u = dq.popleft()
            for o, d in sorted(self.adj[u]):
                if d not in pred:
                    pred[d] = (u, o)
                    if EM[d]:
                        p = []
                        while pred[d] is not None:
                            u2, o2 = pred[d]
                            p.append(self.ops[o2])
                            d = u2
                        return p[::-1]
                    dq.append(d)
        return None


PROGRAM = """#include <boost/multi/array.hpp>
#include <cstdio>
#include <vector>
#include <utility>
namespace multi = boost::multi;
int main() {
%(decls)s
  std::vector<int> before(M.data_elements(), M.data_elements() + M.num_elements()), sbefore(SM.data_elements(), SM.data_elements() + SM.num_elements());
%(stmts)s
  int changed = 0;
  for (std::size_t k = 0; k != before.size(); ++k) if (M.data_elements()[k] != before[k]) { if (!changed++) std::printf("WRITE: element %%zu of the array changed %%d -> %%d\\n", k, before[k], M.data_elements()[k]); }
  for (std::size_t k = 0; k != sbefore.size(); ++k) if (SM.data_elements()[k] != sbefore[k]) { if (!changed++) std::printf("WRITE: element %%zu of the static_array changed %%d -> %%d\\n", k, sbefore[k], SM.data_elements()[k]); }
  std::printf("changed %%d\\n", changed);
  return 0;
}
"""


def write_statement(T, state, expr, expr2):
    F = T.t["facts"]
    nm = T.S[state]["name"]
    if F["elem_mut"][state]:
        if "*" in nm:
            return f"  *({expr}) = 5;", f"*({expr}) = 5"
        return f"  {{ auto&& r = {expr}; r = 5; }}", f"{expr} = 5"
    rf = T.S[state]["raw_facts"]
    if rf.get("fill"):
        return f"  {expr}.fill(5);", f"{expr}.fill(5)"
    if rf.get("assign_same") or rf.get("assign_const"):
        return f"  {expr} = {expr2};", f"{expr} = {expr2}"
    if rf.get("assign_int"):
        return f"  {expr} = 5;", f"{expr} = 5"
    if rf.get("elements_assign") or rf.get("elements_assign_const"):
        return f"  {expr}.elements() = {expr2}.elements();", f"{expr}.elements() = {expr2}.elements()"
    if rf.get("swap_mem") or rf.get("swap_mem_lv"):
        return f"  {expr}.swap({expr2});", f"{expr}.swap({expr2})"
    if rf.get("swap_adl"):
        return f"  {{ using std::swap; swap({expr}, {expr2}); }}", f"swap({expr}, {expr2})"
    if rf.get("assign_array"):
        return f"  {expr} = {expr2};", f"{expr} = {expr2}"
    return None, None


def compile_and_run(ctx, tag, src, flags=("-O0", "-DNDEBUG")):
    os.makedirs(ctx["build"], exist_ok=True)
    cpp = os.path.join(ctx["build"], tag + ".cpp")
    exe = os.path.join(ctx["build"], tag + ".x")
    open(cpp, "w").write(src)
    rc, out = ctx["sh"](["g++", "-std=c++17", "-w"] + list(flags) + [f"-I{ctx['repo']}/include", cpp, "-o", exe], timeout=600)
    if rc != 0:
        errs = [l for l in out.split("\n") if " error: " in l]
        return {"compiled": False, "log": (errs[0] if errs else out[-600:])[:600]}
    rc, out = ctx["sh"]([exe], timeout=120)
    try:
        os.unlink(exe)
    except OSError:
        pass
    return {"compiled": True, "rc": rc, "out": out[-40000:]}


def demonstrate_write(ctx, T, root, ops, state, tag):
    """compile and RUN a write through the const path root+ops (reaching `state`); returns the failing-input dict"""
    ext = T.to_elem_mut(state)
    target = state
    full_ops = list(ops)
    if ext is not None and ext:
        # follow the table to the state the extension reaches
        cur = state
        for o in ext:
            cur = dict(T.adj[cur])[T.opid[o]]
        target, full_ops = cur, list(ops) + ext
    r0, p0 = T.full_path(root, full_ops)
    D, st1, e1 = T.cpp(r0, p0)
    _, st2, e2 = T.cpp(r0, p0, "2")
    stmt, shown = write_statement(T, target, e1, e2)
    if stmt is None:
        return {"expression": e1, "note": "no write statement could be built for this state"}
    src = PROGRAM % {"decls": root_decls(D) + root_decls(D, "2", 5), "stmts": "\n".join(st1 + st2 + [stmt])}
    res = compile_and_run(ctx, tag, src)
    fi = {"expression": shown, "root": T.root_label[r0], "ops": p0, "reaches_state": T.S[target]["name"], "program": src}
    if res["compiled"]:
        fi["compiles"] = True
        fi["observed"] = res["out"].strip()[-600:]
        fi["write_observed"] = "WRITE:" in res["out"]
    else:
        fi["compiles"] = False
        fi["compiler"] = res["log"]
    return fi


# ------------------------------------------------------------------------------------------------ sampled paths vs. real expressions
def sample_paths(T, seed, n, maxlen=5):
    rng = random.Random(seed)
    roots = sorted(T.root_label)
    out, seen = [], set()
    tries = 0
    while len(out) < n and tries < 50 * n:
        tries += 1
        r = rng.choice(roots)
        L = rng.randint(1, maxlen)
        cur, ops = r, []
        for _ in range(L):
            nxt = sorted(T.adj[cur])
            if not nxt:
                break
            o, d = rng.choice(nxt)
            ops.append(T.ops[o])
            cur = d
        k = (r, tuple(ops))
        if not ops or k in seen:
            continue
        seen.add(k)
        out.append((r, ops, cur))
    return out


SAMPLE_TU = """#include "c16_pre.hpp"
// the sampled expressions are compiled (and ODR-instantiated) but never executed; type identity is decided by the compiler
// (std::is_same with the state's own typedef chain), names are printed for the report only
template<class T> struct c16_tag {};
%(funcs)s
volatile int c16_never = 0;
int main() {
%(calls)s
  return 0;
}
"""


def chain_typedef(T, state, pfx):
    """the generator's definition of a state's type: its discovery path from a root, one decltype per step"""
    st = T.S[state]
    lines = [f"  using {pfx}0 = {T.t['root_types'][str(st['path']['root'])]};"]
    for i, o in enumerate(st["path"]["ops"]):
        lines.append(f"  using {pfx}{i+1} = decltype(op_{o}::f(std::declval<{pfx}{i}>()));")
    return "\n".join(lines), f"{pfx}{len(st['path']['ops'])}"


def validate_samples(ctx, T, samples):
    """re-compile sampled table paths as real multi-step expressions on real objects; the decltype must be the table's state"""
    groups = [samples[i:i + 12] for i in range(0, len(samples), 12)]
    gen_dir = os.path.join(ctx["here"], ".build", "C16", "gen")

    def go(gi):
        funcs = []
        for k, (r, ops, end) in enumerate(groups[gi]):
            D, st, e = T.cpp(r, ops)
            td, tname = chain_typedef(T, end, "E")
            funcs.append(f"inline auto f{k}_expr() {{\n{root_decls(D)}" + "\n".join(st) + f"\n  (void)({e});\n  return c16_tag<decltype(({e}))>{{}};\n}}\n"
                         f"int f{k}() {{\n{td}\n  return std::is_same_v<decltype(f{k}_expr()), c16_tag<{tname}>> ? 1 : 0;\n}}")
        calls = "\n".join(f"  std::printf(\"{k}\\t%d\\n\", f{k}());" for k in range(len(groups[gi])))
        return gi, compile_and_run(ctx, f"sample_{gi}", SAMPLE_TU % {"funcs": "\n".join(funcs), "calls": calls}, flags=("-O0", "-DNDEBUG", f"-I{gen_dir}"))
    with cf.ThreadPoolExecutor(max_workers=ctx["ncpu"]) as ex:
        outs = list(ex.map(go, range(len(groups))))
    checked, results, mismatches = 0, [], []
    for gi, res in outs:
        group = groups[gi]
        if not res["compiled"]:
            mismatches.append({"kind": "sample TU does not compile", "log": res["log"], "paths": [[T.root_label[r], ops] for r, ops, _ in group][:3]})
            continue
        got = {}
        for l in res["out"].split("\n"):
            w = l.split("\t")
            if len(w) == 2 and w[0].isdigit():
                got[int(w[0])] = w[1].strip()
        for k, (r, ops, end) in enumerate(group):
            D, st, e = T.cpp(r, ops)
            exp = T.S[end]["name"]
            checked += 1
            if got.get(k) != "1":
                mismatches.append({"kind": "type mismatch", "expression": e, "root": T.root_label[r], "ops": ops, "table": exp, "is_same": got.get(k)})
            else:
                results.append({"root": T.root_label[r], "ops": ops, "expression": e, "type": exp})
    return checked, results, mismatches


# ------------------------------------------------------------------------------------------------ the hook
def const_table(ctx):
    jpath = os.path.join(ctx["here"], ".build", "C16", "const_table.json")
    if not os.path.exists(jpath):
        return {"violations": [{"key": "C16:translator", "what": "gen_const_table.py produced no table (translator failure)", "broken": "translator"}], "stats": {}, "obligations": 1, "discharged": 0}
    tab = json.load(open(jpath))
    T = Table(tab)
    S = tab["states"]
    violations = []
    obligations = discharged = 0

    # (1) const half: every way from a const root into a writable state, shortest first; confirm by compiling and running a write
    obligations += 1
    seen = set()
    cex = []
    for c in tab["counterexamples"]:
        src = S[c["entry"][0]]["name"] if c["entry"] else S[c["root"]]["name"]
        op = c["ops"][-1] if c["ops"] else "(root)"
        # one report per (source type without its dimensionality, op)
        k = (re.sub(r"\d", "#", src), op)
        if k in seen:
            continue
        seen.add(k)
        cex.append(c)
    for n, c in enumerate(cex[:6]):
        fi = demonstrate_write(ctx, T, c["root"], c["ops"], c["state"], f"cex_{n}")
        src = S[c["entry"][0]]["name"] if c["entry"] else S[c["root"]]["name"]
        violations.append({"key": f"C16:hole:{src}--{c['ops'][-1] if c['ops'] else 'root'}-->{S[c['state']]['name']}",
                           "what": f"a const root reaches a writable state ({', '.join(c['why'])}): {fi.get('expression')}",
                           "const_root": S[c["root"]]["name"], "path": c["ops"], "writable_state": S[c["state"]]["name"], "why": c["why"],
                           "failing_input": fi, "distinct_holes_in_table": len(cex),
                           "replay_note": "compile `program` against the headers and run it: it prints the element that changed through the const path"})
    if not cex:
        discharged += 1

    # (2) mutable half
    obligations += 1
    bad = tab["mutable_paths_not_writable"]
    seenb = set()
    nb = 0
    for b in bad:
        k = (re.sub(r"\d", "#", b["label"]), tuple(o for o in b["ops"] if o != "idx"))
        if k in seenb:
            continue
        seenb.add(k)
        nb += 1
        if nb > 4:
            continue
        D, st, e = T.cpp(b["root"], b["ops"]) if b["state"] is not None else (None, [], None)
        fi = {"expression": (e + " = 5") if e else None, "root": b["label"], "ops": b["ops"], "expected": "a modifiable element reference (the path is named in the property and starts from a non-const root)", "observed": b["why"]}
        if e:
            src = PROGRAM % {"decls": root_decls(D), "stmts": "\n".join(st + [f"  {{ auto&& r = {e}; r = 5; }}"])}
            res = compile_and_run(ctx, f"mut_{nb}", src)
            fi["program"] = src
            fi["compiles"] = res["compiled"]
            fi["compiler"] = res.get("log", res.get("out"))
        violations.append({"key": "C16:overconst:" + b["label"] + ":" + "/".join(b["ops"]), "what": f"mutable path {b['label']} {b['ops']} is not writable: {b['why']}", "failing_input": fi, "distinct_paths": len(bad)})
    if not bad:
        discharged += 1

    # (3) rebinding / copying
    obligations += 2
    for i in tab["views_rebindable"][:3]:
        violations.append({"key": "C16:rebind:" + S[i]["name"], "what": f"view state {S[i]['name']}: assignment compiles and the run-time probe does not show an element-wise assignment",
                           "failing_input": {"state": S[i]["name"], "probe": S[i]["rebind_probe"], "expression": "v = w  (v, w views of this type)"}})
    if not tab["views_rebindable"]:
        discharged += 1
    for i in tab["named_views_copyable"][:3]:
        violations.append({"key": "C16:copy:" + S[i]["name"], "what": f"named view {S[i]['name']} is copy-constructible (`auto w = v;` compiles)",
                           "failing_input": {"state": S[i]["name"], "expression": "auto w = v;"}})
    if not tab["named_views_copyable"]:
        discharged += 1

    # (4) known findings that the table still contains (reported under the finding's key -> KNOWN-FINDING)
    by_key = collections.OrderedDict()
    for h in tab["known_holes"]:
        if h[4] is not None:
            by_key.setdefault(h[3], h)
    known = []
    for key, h in by_key.items():
        r0, p0 = T.full_path(h[4]["root"], h[4]["ops"][:-1])
        known.append({"key": key, "what": "known hole edge still in the table", "edge": [S[h[0]]["name"], tab["ops"][h[1]], S[h[2]]["name"]], "failing_input": {"ops": h[4]["ops"], "root": S[h[4]["root"]]["name"]}})
    for key in collections.OrderedDict((k[3], 1) for k in tab["known_overconst_paths"]):
        known.append({"key": key, "what": "known over-const path", "failing_input": {"paths": sum(1 for k in tab["known_overconst_paths"] if k[3] == key)}})
    violations += known

    # (5) the translator's composition assumption, on sampled paths (seeded)
    obligations += 1
    nsamp = 240 if ctx["tier"] == "quick" else 1200
    samples = sample_paths(T, ctx["seed"], nsamp, 5 if ctx["tier"] == "quick" else 6)
    checked, agree, mism = validate_samples(ctx, T, samples)
    for m in mism[:3]:
        violations.append({"key": "C16:translator:" + json.dumps(m.get("ops", m.get("paths")))[:80], "what": "a sampled table path, compiled as a real multi-step expression, does not have the table's type",
                           "failing_input": m})
    if not mism:
        discharged += 1

    # (6) evidence
    EM = tab["facts"]["elem_mut"]
    Rset = set(tab["R"])
    sample_show = []
    for a in agree:
        if len(a["ops"]) >= 2 and len(sample_show) < 6:
            sample_show.append({"expression": a["expression"], "root": a["root"], "decltype": a["type"]})
    mp = tab["mutable_spec_paths"]
    rng = random.Random(ctx["seed"])
    for s, p, lab in (rng.sample(mp, min(3, len(mp))) if mp else []):
        D, st, e = T.cpp(s, p)
        sample_show.append({"mutable_path": e, "root": lab, "ends_in": "modifiable element reference/pointer"})
    kinds = collections.Counter(st["kind"] for st in S)
    stats = {
        "states": len(S), "edges": len(tab["edges"]), "ill_formed_pairs": len(tab["illformed"]), "edges_leaving_table": len(tab["leaving"]),
        "absent_pairs": tab["absent"], "R_size": len(tab["R"]), "const_roots": len(tab["const_roots"]), "derived_const_roots": len(tab["derived_const_roots"]),
        "mutable_roots": len(tab["mut_roots"]), "mutable_paths": len(mp), "known_hole_edges_cut": len(tab["known_holes"]), "known_overconst_paths": len(tab["known_overconst_paths"]),
        "compiles": tab["compiles"], "gen_wall_s": tab["gen_wall_s"], "state_kinds": dict(kinds), "ops": tab["ops"], "maxD": tab["maxD"],
        "certificate_exists": tab["certificate_exists"], "sampled_paths_checked": checked, "sampled_paths_agree": len(agree),
        "rebind_probes": sum(1 for st in S if st.get("rebind_probe")), "ill_formed_examples": [[S[s]["name"], tab["ops"][o], m[:120]] for s, o, m in tab["illformed"][:4]],
    }
    coverage = {
        "states": len(S), "transitions": len(tab["edges"]), "traces_validated_against_impl": len(agree), "exhaustive": True,
        "evaluations": tab["compiles"] + checked, "programs": checked,
        "distinct_nontrivial": sum(1 for a in agree if len(a["ops"]) >= 2),
        "samples": sample_show,
    }
    return {"violations": violations, "stats": stats, "obligations": obligations, "discharged": discharged, "coverage": coverage}


def replay(payload, ctx):
    """./check C16 --replay FILE : re-compile and re-run the recorded program against the current headers"""
    fi = payload.get("failing_input") or {}
    print(json.dumps({k: v for k, v in payload.items() if k != "failing_input"}, indent=1)[:1500])
    if "program" not in fi:
        print("replay: this file names a broken obligation rather than a program; re-run ./check C16")
        return 1
    print("expression:", fi.get("expression"))
    res = compile_and_run(ctx, "replay", fi["program"])
    if not res["compiled"]:
        print("the expression is now rejected by the compiler:", res["log"][:300])
        expect_compile = fi.get("expected", "").startswith("a modifiable")
        if expect_compile:
            print("VIOLATION property=C16 (the mutable path still does not compile)")
            return 1
        print("replay: the write no longer compiles — const-ness holds on this path")
        return 0
    print("observed:", res["out"].strip())
    if fi.get("expected", "").startswith("a modifiable"):
        print("replay: the mutable path now compiles")
        return 0
    if "WRITE:" in res["out"]:
        print("VIOLATION property=C16 (write through a const path reproduced)")
        return 1
    return 0
