from props_common import GEN_ITERS_TRUST, GEN_LAYOUT_TRUST, TRUSTED_COMMON, VIEW_RULE, views_harness

PROP = {
    "generators": [{"script": "gen_layout.py"}, {"script": "gen_iters.py"}],
    "lean_targets": ["MultiProofs.C19", "MultiProofs.C19b", "MultiProofs.GenTie", "MultiProofs.GenTieIter"],
    "lean_module": "MultiProofs.C19b",
    "theorems": [
        "Multi.GenTieIter.elements_iterator_is_the_code",
        "Multi.GenTieIter.counter_functions_are_the_code",
        "Multi.GenTie.range_functions_are_the_code",
        "Multi.GenTie.layout_functions_are_the_code",
        "Multi.GenTie.view_functions_are_the_code",
        "Multi.GenTie.V_diagonal_aux_tie",
        "Multi.C19.rebased_root_is_shifted",
        "Multi.C19.reindexed_refines",
        "Multi.C19.blocked_refines",
        "Multi.C19.stenciled_refines",
        "Multi.C19.elements_rebase_invariant",
        "Multi.C19.ops_rebase_transparent",
        # the base-agnostic theorems this property relies on
        "Multi.C01.op_refines",
        "Multi.C01.reachable_denotes",
        "Multi.C02.elemit_deref",
        "Multi.C02.elemit_laws",
    ],
    "harnesses": [views_harness(["rebased"], 4800, 320000, modes_thorough=["rebased", "exhaustive-rebased"])],
    "trusted_base": TRUSTED_COMMON + GEN_LAYOUT_TRUST + GEN_ITERS_TRUST,
    "assumptions": ["index bases drawn from -3..3 per dimension in the correspondence run; the theorems hold for every integer base",
                    "copying, assignment, equality and reextent of re-based arrays reduce to elements() of re-based views (C05/C06/C07 checks run re-based operands as well)",
                    ],
    "rule": VIEW_RULE + "; every root extension starts at a base in -3..3; reindexed/blocked/stenciled are part of the operation set",
    "level_text": "Theorems for every integer index base: an array built from explicit extensions addresses like the zero-based array at shifted indices; every C01 operation, begin()/end() and elements() (C02) are proved for arbitrary bases; reindexed changes only the valid indices; blocked keeps the original indices; elements() of a re-indexed view is the identical range. Tied to /repo by the differential run with re-based roots.",
    "level_note": "Trusted: Lean kernel (+propext, Classical.choice, Quot.sound), the transcription MultiModel/{Layout,View,Iter}.lean validated by the correspondence run, Int for ptrdiff_t. diagonal and flatted are claimed for zero-based leading dimensions only (the library slices with {0, n} / has no base handling there).",
}
