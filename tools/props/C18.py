from props_common import TRUSTED_COMMON

_ENV = {"OMPI_ALLOW_RUN_AS_ROOT": "1", "OMPI_ALLOW_RUN_AS_ROOT_CONFIRM": "1"}


def _h(name, flags, quick, thorough):
    return {"name": name, "src": "mpi.cpp", "cxx": "mpicxx", "flags": flags, "modes": ["zero", "rebased"], "env": _ENV,
            "driver": "mmdrv_sermpi", "programs": {"quick": quick, "thorough": thorough}}


PROP = {
    "lean_targets": ["MultiProofs.C18"],
    "lean_module": "MultiProofs.C18",
    "theorems": [
        "Multi.C18.message_typemap",
        "Multi.C18.pack_unpack_kth",
        "Multi.C18.reachable_pack_unpack_kth",
        "Multi.C18.types_committed_and_freed_once",
        "Multi.C18.ofElements_spec",
        "Multi.Mpi.build_spec",
        "Multi.Mpi.message_disps",
    ],
    "harnesses": [_h("mpi_int", ["-O1", "-g"], 16000, 640000), _h("mpi_double", ["-O1", "-g", "-DHARNESS_T=double"], 8000, 320000)],
    "trusted_base": TRUSTED_COMMON + [
        "MPI-4.0 typemap semantics of MPI_Type_create_hvector / create_resized / dup / commit / free and of (buf, count, datatype) messages, as transcribed in lean/MultiModel/Mpi.lean; validated against Open MPI through MPI_Pack / MPI_Unpack on every run",
        "the PMPI interposition layer of harness/mpi.cpp (logs the datatype calls, keeps the handle ledger)",
    ],
    "assumptions": ["element types int (MPI_INT) and double (MPI_DOUBLE)", "sizes fit the `int` count type of MPI (overflow outside the quantifier)",
                    "single process: MPI_Pack/MPI_Unpack stand for send/receive (same datatype engine)"],
    "rule": ("programs = root array (D 1..4, sizes 0..6, <= 160 elements) + 0..6 in-domain view operations (C01/C19 vocabulary) + the message of elements() of the result, "
             "and for 3 of 4 programs a destination view of equal element count and unrelated layout (guard cells, strides, permuted dimensions) over a second buffer; "
             "distinct = different program text; non-trivial = a message that packs >= 2 elements"),
    "level_text": ("Theorems (all D >= 1, all well-formed views): the (buffer, count, datatype) message built by the transcribed skeleton recursion denotes exactly the byte displacements "
                   "sizeof(T)*(addr(idx) - base) of the view's elements in canonical order; pack followed by unpack through any other view of equal element count moves the k-th element to "
                   "the k-th element and touches nothing else; every created datatype is freed exactly once, the message's datatype is committed before use, moved-from skeletons free nothing. "
                   "The model is tied to /repo and to Open MPI by a differential run: logged PMPI calls, packed elements, destination memory."),
    "level_note": ("Trusted: Lean kernel, the hand transcription MultiModel/Mpi.lean, MPI's typemap semantics (hypothesis, validated through MPI_Pack/MPI_Unpack of Open MPI on every run), "
                   "Int for ptrdiff_t/MPI_Aint/int. The correspondence compares the exact sequence of datatype calls next to the property's observable (packed elements, cells written by unpack, ledger balance): a rewrite that builds the same typemap through different MPI calls breaks the correspondence and is reported once as `VIOLATION ... no-failing-input-found` until the model is updated; an input whose observable differs is reported as the failing input."),
}


def nontrivial(prog_lines, answer_lines):
    for l in answer_lines:
        if l.startswith("msg ") and " | pack " in l:
            try:
                if int(l.split(" | pack ")[1].split()[0]) >= 2:
                    return True
            except ValueError:
                pass
    return False


def _observable(lines):
    """msg lines: the packed elements and the state of the datatype ledger (all freed exactly once, none leaked, no erroneous call), not
    the sequence of MPI_Type_* calls nor the (count, datatype) split; unpack lines: the cells written and the ledger state"""
    out = []
    for l in lines:
        parts = [p.strip() for p in l.split("|")]
        keep = []
        for p in parts:
            w = p.split()
            if not w:
                continue
            if w[0] == "ledger" and len(w) == 5:
                keep.append("ledger balanced=%s leaked=%s errs=%s" % (w[1] == w[2], w[3], w[4]))
            elif w[0] in ("pack", "unpack", "prog", "INTERNAL", "LAW-VIOLATION"):
                keep.append(p)
            elif w[0] == "msg":
                keep.append(p if len(w) == 2 else "msg")      # "msg none" / "msg bad-size" whole; else drop buf/count (the pack shows what they denote)
            elif parts.index(p) == 0:
                keep.append(p)      # any other kind of answer line: compared whole
        out.append(" | ".join(keep))
    return out


def property_fails(impl_lines, model_lines):
    return _observable(impl_lines) != _observable(model_lines)
