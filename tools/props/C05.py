from props_common import GEN_STORE_TRUST, TRUSTED_COMMON

STORE_RULE = ("programs = two or three arrays (int or long elements, D 0..4, sizes 0..5) in one guarded storage + views of EQUAL extents built from them with "
              "different layouts (sub-block offsets, stride factors, permuted storage order undone by rotated/transposed/unrotated, random walks of C01 "
              "operations, disjoint halves / even-odd parts of one array, whole array_refs, owning copies) + 1..3 mutating operations + full dump of the storage "
              "around every root (8 guard cells each side) and a check of all remaining cells after every operation; distinct = different program text; "
              "non-trivial = at least one mutating operation other than `set` on views with >= 2 elements")


def _shape_ne(answer_lines):
    best = 0
    for l in answer_lines:
        if l.startswith("shape "):
            f = l.split("|")
            if len(f) >= 4:
                w = f[3].split()
                if w and w[0].lstrip("-").isdigit():
                    best = max(best, int(w[0]))
    return best


def nontrivial(prog_lines, answer_lines):
    has_op = any(l.startswith("x ") and not l.startswith("x set") for l in prog_lines)
    return has_op and _shape_ne(answer_lines) >= 2


def store_harness(name, modes, quick, thorough, flags=None):
    return {"name": name, "src": "store.cpp", "flags": flags or ["-O0"], "modes": modes, "programs": {"quick": quick, "thorough": thorough}, "driver": "mmdrv_store"}


PROP = {
    "generators": [{"script": "gen_store.py"}],
    "lean_targets": ["MultiProofs.C05", "MultiProofs.GenTieStore", "MultiProofs.CodeRefinesC05"],
    "lean_module": "MultiProofs.C05",
    "theorems": [
        "Multi.CodeRefines.code_assign_exact",
        "Multi.GenTieStore.AR_assign_other_rv_tie",
        "Multi.GenTieStore.AR_assign_tie",
        "Multi.GenTieStore.assignment_is_the_code",
        "Multi.GenTieStore.SV_assign_same_tie",
        "Multi.GenTieStore.SV_assign_copy_tie",
        "Multi.elemit_kth",
        "Multi.C05.assign_exact",
        "Multi.C05.assignT_exact",
        "Multi.C05.assign_self",
        "Multi.C05.move_exact",
        "Multi.C05.swap_exact",
        "Multi.C05.fill_exact",
        "Multi.C05.assignVals1_exact",
        "Multi.C05.aref_assign_exact",
        "Multi.C05.assign_rows_exact",
        "Multi.C05.assign_range_rows_exact",
        "Multi.C05.assign0_exact",
        "Multi.C05.reachable_wf_injective",
        "Multi.C05.assign_exact_reachable",
    ],
    "harnesses": [store_harness("store", ["c05"], 16000, 640000), store_harness("store_tracked", ["c05"], 4800, 160000, ["-O0", "-DTRACKED"])],
    "trusted_base": TRUSTED_COMMON + GEN_STORE_TRUST + [
        "std::copy / copy_n / fill_n / swap_ranges are modelled by their contract over the library's iterators (counted loop: dereference, assign, ++); libstdc++ is not verified",
        "the driver mmdrv_store keeps the memory as a table between commands (a representation change of the function Mem)",
    ],
    "assumptions": ["index arithmetic does not overflow ptrdiff_t", "raw pointers; element types int, long and a move-tracking int wrapper (other pointer types: C11)",
                    "destination and source have equal extents and no element in common (the property's quantifier); the flat array_ref copy may be memmove for trivially copyable elements, which differs from the modelled forward loop only for overlapping ranges",
                    "assignment from an initializer list of rows / an owning array is checked only when the rows are non-empty (an empty owning array collapses its extents and is asserted against by the library)"],
    "rule": STORE_RULE,
    "level_text": "Theorems (all D >= 1, all extents, any two well-formed layouts): the transcribed element-copy loop of subarray::operator= (elements() = other.elements(), std::copy over elements_iterator_t ++) returns, for equal extents, injective destination and disjoint images, a memory with m'(dst[idx]) = m(src[idx]) at every index tuple and m' = m at every address outside the destination's image; the same for the converting overload, elements() assignment, element_moved (source cells left moved-from), swap, 1-D fill / initializer-list / range / assign, D >= 2 assignment from an initializer list of rows and from a range of ranges (assign_rows_exact, assign_range_rows_exact: element (i, rest) receives row i's element at rest), the flat array_ref copy and 0-D assignment; key lemma elemit_kth: ++ from elements().begin() visits the addresses of boxIndices in canonical order for every well-formed layout; for destinations reachable by C01 operations well-formedness and injectivity are discharged (assign_exact_reachable). Descriptors are unchanged by construction. Tied to /repo by a differential run that dumps the whole guarded storage after every real assignment. The assignment / swap operators of views, element ranges and array_refs (gen_store.py, 34 functions with the comparisons) are regenerated from /repo's source on every run and proved equal to the model (GenTieStore.lean); code_assign_exact states the exactness theorem about the regenerated operator.",
    "level_note": "Trusted: Lean kernel (+propext, Classical.choice, Quot.sound), the transcription MultiModel/{Iter,Store}.lean validated by the correspondence run, the std algorithm contracts, Int for ptrdiff_t. Overlapping source/destination is outside the quantifier.",
}
