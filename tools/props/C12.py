from props_common import GEN_CASTS_TRUST, GEN_LAYOUT_TRUST, TRUSTED_COMMON

PROP = {
    "generators": [{"script": "gen_layout.py"}, {"script": "gen_casts.py"}],
    "lean_targets": ["MultiProofs.C12", "MultiProofs.GenTie", "MultiProofs.GenTieCast"],
    "lean_module": "MultiProofs.C12",
    "theorems": [
        "Multi.GenTieCast.member_cast_is_the_code",
        "Multi.GenTieCast.reinterpret_is_the_code",
        "Multi.GenTieCast.reinterpret1_is_the_code",
        "Multi.GenTieCast.reinterpret_n_is_the_code",
        "Multi.GenTieCast.cast_assertions_are_the_code",
        "Multi.GenTieCast.reinterpret1_asserts_tie",
        "Multi.GenTie.L_scale_tie",
        "Multi.GenTie.L_scale_asserts_tie",
        "Multi.C12.member_cast_addr",
        "Multi.C12.reinterpret_addr",
        "Multi.C12.reinterpret_n_addr",
        "Multi.C12.same_cast_identity",
        "Multi.C12.transformed_elem",
        "Multi.C12.transformed_writes_through",
        "Multi.C12.casts_commute_with_ops",
        "Multi.C12.admissible_after_op",
        "Multi.C12.casts_commute_with_ops_dvd",
        "Multi.C12.transformed_commutes_with_ops",
        "Multi.C12.reinterpret_n_composes",
        "Multi.C12.ctor_from_projection",
    ],
    "harnesses": [
        {"name": "casts", "src": "casts.cpp", "flags": ["-O1", "-g"], "modes": ["mix"], "driver": "mmdrv_cast",
         "programs": {"quick": 6400, "thorough": 480000}},
    ],
    "hooks": ["count_nonintegral_casts"],
    "trusted_base": TRUSTED_COMMON + GEN_LAYOUT_TRUST + GEN_CASTS_TRUST + [
        "byte-address semantics of typed pointers (T* + k = byte address + k*sizeof(T)); sizeof(S4)=32, sizeof(S3)=24, sizeof(complex<double>)=16, sizeof(int)=sizeof(unsigned)=4 (static_assert in the harness)",
        "elements()/uninitialized_copy_n visit the source in canonical order (that is C02/C03); the model of array(view) takes that order as given",
    ],
    "assumptions": [
        "source views are well formed (C01) with ANY index bases (layout_t::scale scales the offset since the fix commit); address statements are for index tuples inside the view's box",
        "(stride*sizeof(T)) % sizeof(T2) == 0 at every level (assertion of scale; automatic when sizeof(T2) divides sizeof(T)); the offset assertion is then a consequence on well-formed views without empty level (scaleDivOff_of_wf)",
        "index arithmetic does not overflow ptrdiff_t; raw pointers",
        "as_const / const_array_cast exist only for D > 1 at this commit (the D = 1 specialisation has static_array_cast only)",
    ],
    "rule": ("programs = element kind (struct of 4 doubles | struct of 3 doubles | complex<double> | int) + root extents (D 1..4, sizes 0..6, <= 200 elements, index bases -3..3 in half of the programs) + 0..5 in-domain view "
             "operations drawn from the real view's current shape + 1..5 projection queries (member_cast to each member, reinterpret_array_cast<U>() and <U>(n), reinterpret_array_cast<U>() with NON-integral size ratios (24 <-> 16 bytes: 70% of the 24-byte programs and 35% of the complex programs give every dimension strides and offsets divisible by 2 resp. 3, so that the cast is admissible; it is only emitted when the library's own assertions hold), "
             "static/const casts, blas::real/imag, element_transformed with value and reference functors incl. access-time and write-through probes, array construction "
             "from each); distinct = different program text; non-trivial = some projection answer with >= 2 elements"),
    "level_text": "Theorems (all D, all well-formed views with arbitrary index bases, all element sizes with the code's divisibility assertion, all index tuples, all memory states): member_cast designates the byte at offsetof(member) inside each source element; reinterpret_array_cast<U>() keeps every element's first byte and reinterpret_array_cast<U>(n) appends a dimension [0,n) whose j-th element is at +j*sizeof(U), tiling the source element; static/const casts are the identity on layout and pointer; element_transformed(f)[idx] = f(source[idx]) for every memory state (hence at access time) and a reference functor writes exactly the designated object; every same-rank cast commutes with every operation of the view algebra (via C01.op_refines) and the rank-raising cast composes on both sides; array(view) has the view's extents and data[rowMajor idx] = conv(view[idx]). The model is tied to /repo by a differential run over generated views (byte offsets and values of every projected element). member_cast / reinterpret_array_cast (10 functions, gen_casts.py) and layout_t::scale (gen_layout.py) are regenerated from /repo's source on every run and proved equal to the model (GenTieCast.lean, GenTie.L_scale_tie).",
    "level_note": "Trusted: Lean kernel (+propext, Classical.choice, Quot.sound), the hand transcription MultiModel/Cast.lean validated by the correspondence run only, byte-address semantics of pointers, Int for ptrdiff_t, canonical order of elements() (C02). Index bases are arbitrary (the model follows the fixed layout_t::scale, which scales the offset). The conversion of element values (conv) is abstract in the theorem and exercised with int->double, complex<double>->complex<long double> in the run.",
}


def nontrivial(prog_lines, answer_lines):
    has_x = any(l.startswith("x ") for l in prog_lines)
    big = False
    for l in answer_lines:
        p = l.split("|")
        if len(p) >= 3:
            w = p[2].split()
            if w and w[0].isdigit() and int(w[0]) >= 2:
                big = True
    return has_x and big


def finding_key(program, impl_lines, model_lines):
    kinds = [l.split()[1] for l in program if l.startswith("t ")]
    xs = sorted({(l.split()[3] if l.split()[1] == "ctor" else l.split()[1]) for l in program if l.startswith("x ")})
    kind = "?"
    for a, b in zip(impl_lines, model_lines):
        if a != b:
            kind = (a.split() or ["?"])[0]
            break
    return f"C12:{'+'.join(kinds)}:{'+'.join(xs)}:{kind}"


def count_nonintegral_casts(ctx):
    """how many admissible reinterpret_array_cast<U>() with a non-integral size ratio (24 <-> 16 bytes) the run performed, by rank of
    the source view and emptiness; a generator that stops reaching them (a seeded change of layout_t::scale was once missed for that
    reason) is reported"""
    import glob, os
    counts = {}
    total = nonempty = d2 = 0
    for f in glob.glob(os.path.join(ctx["build"], "impl.casts.*.out")):
        for l in open(f, errors="replace"):
            if l.startswith("reintq ") or l.startswith("ctorq "):
                w = l.split("|")
                tag, rank = w[0].split()[0], int(w[0].split()[1])
                n = int(w[2].split()[0]) if len(w) > 2 and w[2].split() else 0
                key = f"{tag} D={rank} {'empty' if n == 0 else 'nonempty'}"
                counts[key] = counts.get(key, 0) + 1
                total += 1
                if n > 0:
                    nonempty += 1
                    if rank >= 2:
                        d2 += 1
    stats = {"nonintegral_casts": total, "nonempty": nonempty, "nonempty_rank_ge_2": d2, "by_class": dict(sorted(counts.items()))}
    floor = 200 if ctx.get("tier") == "quick" else 2000
    if d2 < floor:
        return {"violations": [{"key": "C12:generator:nonintegral-casts-not-reached", "what": f"only {d2} non-empty non-integral reinterpret_array_cast<U>() on views of rank >= 2 were generated (floor {floor}): the correspondence run no longer exercises layout_t::scale with non-integral ratios"}],
                "stats": stats, "obligations": 1, "discharged": 0}
    return {"violations": [], "stats": stats, "obligations": 1, "discharged": 1}
