import ledger_common as lc
from props_common import TRUSTED_COMMON

PROP = {
    "lean_targets": ["MultiProofs.C10"],
    "lean_module": "MultiProofs.C10",
    "theorems": [
        "Multi.C10.dealloc_by_equal_alloc_partial",
        "Multi.C10.dealloc_by_equal_alloc_history",
        "Multi.C10.alloc_safe_fixed",
        "Multi.C10.alloc_safe_always_equal",
        "Multi.C10.propagation_follows_traits",
        "Multi.C10.ext_ctor_uses_given",
        "Multi.C10.finding_F9_move_assign_adopts_foreign_block",
        "Multi.C10.finding_F9_wrong_deallocate",
        "Multi.C10.finding_F9_ext_move_ctor_adopts_foreign_block",
        "Multi.C10.finding_F9c_copy_assign_replaces_allocator_under_block",
        "Multi.C10.finding_F9d_view_assign_uses_default_allocator",
        "Multi.Ledger.run_spec",
    ],
    "harnesses": [lc.ledger_harness("ledger", ["alloc"], 32000, 320000, ["alloc20"])],
    "hooks": ["oracle"],
    "trusted_base": TRUSTED_COMMON + lc.TRUSTED_LEDGER,
    "assumptions": ["allocator instances 0..3 with identity-based equality (or is_always_equal), select_on_container_copy_construction in three modes (identity, to another instance, to the default instance); "
                    "std::pmr::polymorphic_allocator over three instrumented memory resources, resource 0 being the default resource",
                    "swap of arrays whose allocators are unequal and do not propagate on swap is excluded (undefined for standard containers as well)",
                    "zero-based extents; D = 1..3, and array<T,0> (about 7% of the programs; non-propagating allocators in the three select_on_container_copy_construction modes, std::pmr; int and Semi elements in the trivial modes) with the forms whose code mirrors the D >= 1 code of the model: construction from extensions / from an element, copy construction, copy assignment, assignment of an element, destruction; move construction and move assignment of a 0-D array (element-wise, source stays alive) are not exercised; the theorems assume 1 <= D (Cfg.OK), so for D = 0 the model is the executable reference of the correspondence only (validated, not proved); no failures injected (C09 does that)"],
    "rule": lc.RULE,
    "level_text": ("Theorems (all 16 trait configurations + select_on_container_copy_construction modes, all allocator instances, all histories): for the tree with every repair "
                   "(F6, F7, F8, F9d, F9, F9c) the FULL statement `alloc_safe_fixed`: along every history every block is owned by, and was released through, an allocator equal to the one "
                   "that produced it (invariant `dealloc_by_equal_alloc`); `propagation_follows_traits` (copy/move assignment and swap replace the allocator exactly when POCCA/POCMA/POCS say so, "
                   "copy construction uses select_on_container_copy_construction), `ext_ctor_uses_given`; `dealloc_by_equal_alloc_partial/_history` for any subset of the repairs (operations outside the "
                   "finding classes of that tree); NEGATIONS on concrete witnesses for the trees without F9 / F9c / F9d (`finding_F9*`). "
                   "Correspondence: per-instance ledger (which instance allocated / deallocated each block) and get_allocator() after every operation, against the model."),
    "level_note": ("Trusted: Lean kernel, the hand transcription MultiModel/Ledger.lean (validated over all 16 trait configurations and std::pmr with three resources, against the headers "
                   "with and without each repair), allocator_traits semantics. Swap of unequal allocators that do not propagate on swap is excluded by the precondition (undefined for standard containers too). "
                   "Findings F9, F9c, F9d are repaired (fixes/F9.patch, F9c.patch, F9d.patch); no open finding."),
}


def nontrivial(prog_lines, answer_lines):
    return lc.nontrivial(prog_lines, answer_lines)


def finding_key(program, impl_lines, model_lines):
    return lc.finding_key("C10", program, impl_lines, model_lines)


def reproduce_finding(f, ctx):
    return lc.reproduce("C10", f, ctx)


def oracle(ctx):
    h = PROP["harnesses"][0]
    return lc.oracle("C10", ctx, h["modes_thorough"] if ctx.get("tier") == "thorough" else h["modes"])


def replay(payload, ctx):
    return lc.replay("C10", payload, ctx)
