import ledger_common as lc
from props_common import TRUSTED_COMMON

PROP = {
    "lean_targets": ["MultiProofs.C08"],
    "lean_module": "MultiProofs.C08",
    "theorems": [
        "Multi.C08.inv_init",
        "Multi.C08.inv_step",
        "Multi.C08.inv_history",
        "Multi.C08.all_dead_nothing_outstanding",
        "Multi.C08.discipline_checked",
        "Multi.C08.trivial_no_write",
        "Multi.Ledger.run_spec",
    ],
    "harnesses": [lc.ledger_harness("ledger", ["hist", "trivial", "semitriv"], 16000, 160000, ["hist20", "trivial20", "semitriv20"])],
    "hooks": ["oracle"],
    "trusted_base": TRUSTED_COMMON + lc.TRUSTED_LEDGER,
    "assumptions": ["element types: an instrumented class type with non-trivial special members; int (trivially default-constructible and destructible); a class type with logged, non-trivial "
                    "default/copy construction and a TRIVIAL destructor (the only mixed combination that exists); the instrumented type with force_element_trivial_destruction (destruction declared skippable)",
                    "zero-based extents (index bases are C19's subject); D = 1..3, and array<T,0> (about 7% of the programs; non-propagating allocators in the three select_on_container_copy_construction modes, std::pmr; int and Semi elements in the trivial modes) with the forms whose code mirrors the D >= 1 code of the model: construction from extensions / from an element, copy construction, copy assignment, assignment of an element, destruction; move construction and move assignment of a 0-D array (element-wise, source stays alive) are not exercised; the theorems assume 1 <= D (Cfg.OK), so for D = 0 the model is the executable reference of the correspondence only (validated, not proved); the CUDA/thrust code paths are not exercised",
                    "operations whose preconditions the caller violates are not part of a history (reshape to another element count, slice outside the extension, swap of unequal non-propagating allocators)",
                    "serialisation-load is `clear(); reextent(extensions)` followed by element assignment (array.hpp:1174-1181): covered as the composition of those operations, the archive itself is C17's subject"],
    "rule": lc.RULE,
    "level_text": ("Theorems (every allocator/element configuration, every pool, every finite history of in-domain operations without failures): the invariant `Inv` — every outstanding block "
                   "is owned by exactly one live array, has the size it was allocated with and all its cells alive; no construction over a live object, no read/assignment/destruction of a dead one; "
                   "every deallocate carries the size of its allocate — holds initially, is preserved by every operation as coded (micro-step model of array.hpp / adl.hpp), hence along every history; "
                   "when every array is dead nothing is outstanding; sizing constructors and reextent without a fill value write no cell of a trivially default-constructible type. "
                   "The model is tied to /repo by a differential run of the event streams (allocate/construct/assign/destroy/deallocate) of the real code, and an independent registry/ledger oracle in the harness."),
    "level_note": ("Trusted: Lean kernel (+propext, Classical.choice, Quot.sound), the hand transcription MultiModel/Ledger.lean validated by the correspondence run only, the modelled C++ lifetime rules, "
                   "the instrumentation of the harness. Destruction/deallocation order inside one operation is compared as a multiset (a harmless reordering does not alarm); fallible events are compared in order."),
}


def nontrivial(prog_lines, answer_lines):
    return lc.nontrivial(prog_lines, answer_lines)


def finding_key(program, impl_lines, model_lines):
    return lc.finding_key("C08", program, impl_lines, model_lines)


def reproduce_finding(f, ctx):
    return lc.reproduce("C08", f, ctx)


def oracle(ctx):
    h = PROP["harnesses"][0]
    return lc.oracle("C08", ctx, h["modes_thorough"] if ctx.get("tier") == "thorough" else h["modes"])


def replay(payload, ctx):
    return lc.replay("C08", payload, ctx)
