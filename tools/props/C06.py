import value_common as vc
from props_common import GEN_ITERS_TRUST, TRUSTED_COMMON

PROP = {
    "generators": [{"script": "gen_iters.py"}],
    "lean_targets": ["MultiProofs.C06", "MultiProofs.GenTieIter"],
    "lean_module": "MultiProofs.C06",
    "theorems": [
        "Multi.GenTieIter.X_eq_tie",
        "Multi.C06.reextent_extents",
        "Multi.C06.reextent_noop",
        "Multi.C06.reextent_noop_pool",
        "Multi.C06.reextent_moved_law",
        "Multi.C06.reextent_law_values",
        "Multi.C06.reextent_law",
        "Multi.C06.clear_empty",
        "Multi.C06.reshape_flat",
        "Multi.C06.assign_exact",
        "Multi.C06.assign_range_exact",
        "Multi.C06.assign_list_exact",
    ],
    "harnesses": [vc.value_harness(["int+c06", "str+c06", "int+c06+full", "str+c06+full"], 4000, 160000)],
    "hooks": ["compile_probes", "op_histogram"],
    "trusted_base": TRUSTED_COMMON + GEN_ITERS_TRUST + [
        "element conversions between the two element types of the run (long -> int, int -> Str) are the identity on the integer image",
        "harness/value.cpp's reference model (extents + flat std::vector, written from the documentation) as a second oracle inside the run",
    ],
    "assumptions": ["index arithmetic does not overflow ptrdiff_t", "std::allocator (allocator identity / propagation: C10)", "no exception is thrown (C09)",
                    "assignment from a view that aliases the destination is excluded (README: undefined)"],
    "rule": vc.VALUE_RULE,
    "level_text": "Theorems (all D >= 1, all old/new extents incl. empty and non-zero index bases, any prior state, any element type): reextent_law - after reextent(x) / reextent(x, v) the array reports extents x (collapsed), every element whose index tuple lies in both the old and the new extents keeps its value, every other element equals the fill value (value-initialised, or indeterminate for a trivially default constructible T, without fill), the array is valid in a block no other array owns and no other array changes; reextent to the current extents is the identity on heap, block and layout (storage, iterators, views stay valid); the rvalue overload value-initialises everything; clear / A = {} leave an empty valid array; reshape keeps the flat element sequence and the block; assign(extensions, v), assign(first,last) and assignment from an initializer list (in place or not) produce exactly the requested contents. No partial theorem remains for D >= 1.",
    "level_note": "Trusted: Lean kernel (+propext, Classical.choice, Quot.sound); the hand transcription MultiModel/Owning.lean (the code AFTER the fix: commits recorded in findings/C06.json), validated by the differential run (C06 operation weights: reextent x3, clear, reshape, assign x3 interleaved with the C04 operations) and the reference model inside the harness; Int for ptrdiff_t. D = 0 arrays (reextent is a no-op there) are covered by the run only.",
}


def nontrivial(prog_lines, answer_lines):
    return vc.nontrivial(prog_lines, answer_lines)


def finding_key(program, impl_lines, model_lines):
    return vc.finding_key("C06", program, impl_lines, model_lines)


def reproduce_finding(f, ctx):
    return vc.reproduce_finding(f, ctx)


def compile_probes(ctx):
    return vc.compile_probes(ctx, ["VALUE_HAVE_ASSIGN_FILL"])


def op_histogram(ctx):
    return vc.op_histogram(ctx)
