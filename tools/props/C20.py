from props_common import GEN_LAYOUT_TRUST, TRUSTED_COMMON, VIEW_RULE, views_harness

PROP = {
    "generators": [{"script": "gen_asserts.py"}, {"script": "gen_layout.py"}],
    "lean_targets": ["MultiProofs.C20", "MultiProofs.GenTie"],
    "lean_module": "MultiProofs.C20",
    "theorems": [
        "Multi.GenTie.assertions_are_the_code",
        "Multi.GenTie.take_drop_assertions_are_the_code",
        "Multi.GenTie.unasserted_functions_are_the_code",
        "Multi.GenTie.range_functions_are_the_code",
        "Multi.GenTie.layout_functions_are_the_code",
        "Multi.GenTie.view_functions_are_the_code",
        "Multi.C20.inventory_classified_and_pure",
        "Multi.C20.asserts_silent_index",
        "Multi.C20.asserts_fire_index",
        "Multi.C20.asserts_silent_sliced",
        "Multi.C20.asserts_silent_take_drop",
        "Multi.C20.asserts_silent_partitioned",
        "Multi.C20.asserts_silent_extension",
        "Multi.C20.asserts_silent_stride_nonzero",
        "Multi.C20.asserts_silent_equal_count",
        "Multi.C20.asserts_fire_assign",
        "Multi.C20.asserts_silent_iter",
        "Multi.C20.asserts_silent_from_linear",
    ],
    "harnesses": [
        # assertions enabled (default build): valid programs must run assertion-free and agree with the model;
        # death tests: out-of-range indexing / mismatched-extent assignment must die by SIGABRT with a library assertion
        views_harness(["death", "zero", "rebased"], 3200, 200000, name="views_assert"),
        views_harness(["zero", "rebased"], 3200, 200000, name="views_ndebug", flags=["-O1", "-DNDEBUG"]),
        views_harness(["zero", "rebased"], 3200, 200000, name="views_disable", flags=["-O1", "-g", "-DBOOST_MULTI_ASSERT_DISABLE"]),
    ],
    "trusted_base": TRUSTED_COMMON + GEN_LAYOUT_TRUST + ["tools/gen_asserts.py (assertion inventory: regex extraction + classification rules) and the reviewed snapshot tools/assert_inventory.json",
                                     "process-level behaviour of assert() (abort with a message naming the file) is observed in forked children, not modelled"],
    "assumptions": ["valid programs = the generated programs of C01/C02/C19 (view algebra, iterators, elements ranges); valid programs of C04-C07 run assertion-enabled in their own checks",
                    "assertion classes without a model predicate (reinterpret/scale preconditions, 0-D counts, null-base offset, elements()[k] bound) are covered by the three-configuration differential run only"],
    "rule": VIEW_RULE + "; three build configurations (assertions on, -DNDEBUG, -DBOOST_MULTI_ASSERT_DISABLE) must all reproduce the model's stream; death mode adds out-of-range indices (first-1-k, last+k) and assignments between views whose extents are equal / differ in one size / have two sizes swapped, each run in a forked child",
    "level_text": "The assertion inventory of the headers is regenerated from the source on every run (131 sites) and each site is classified; theorems show every modelled assertion predicate true for in-domain arguments (indexing, slicing, take/drop, partition, extension divisibility, non-zero strides of constructed arrays, iterator compatibility, from_linear guard) and false for out-of-range indices and mismatched extents; assertion expressions are checked side-effect free; the three build configurations are compared differentially and death tests observe SIGABRT with a library assertion message.",
    "level_note": "Trusted: Lean kernel (+propext, Classical.choice, Quot.sound), the assertion translator and its reviewed snapshot (an added, removed or edited assertion is reported as a broken obligation), the transcription of the predicates in MultiModel/View.lean, fork/waitpid observation of aborts.",
}
