from props_common import TRUSTED_COMMON, VIEW_RULE, views_harness
import value_common as _vc

def _store(name, kind, modes, quick, thorough):
    return {"name": name, "src": "store.cpp", "flags": ["-O0", f"-DPTR_KIND={kind}"], "modes": modes, "programs": {"quick": quick, "thorough": thorough}, "driver": "mmdrv_store"}


def _algos(name, kind, quick, thorough):
    return {"name": name, "src": "algos.cpp", "flags": ["-O0", f"-DPTR_KIND={kind}"], "modes": ["all"], "programs": {"quick": quick, "thorough": thorough}, "driver": "mmdrv_store"}


PROP = {
    "lean_targets": ["MultiProofs.C11"],
    "lean_module": "MultiProofs.C11",
    "theorems": [
        "Multi.C11.op_affine",
        "Multi.C11.addr_affine",
        "Multi.C11.iter_affine",
        "Multi.C11.elems_affine",
        "Multi.C11.interp_commutes",
        "Multi.C01.reachable_in_bounds",
    ],
    "harnesses": [
        views_harness(["zero", "rebased"], 3200, 200000, name="views_raw", flags=["-O1", "-g", "-DPTR_KIND=0"]),
        views_harness(["zero", "rebased"], 3200, 200000, name="views_offsetptr", flags=["-O1", "-g", "-DPTR_KIND=1"]),
        views_harness(["zero", "rebased"], 3200, 200000, name="views_checkedptr", flags=["-O1", "-g", "-DPTR_KIND=2"]),
        # C05 / C07 programs (assignment, fill, swap, ==, <, ... through views, array_refs and owning arrays) and C03 programs
        # (20 std:: algorithms on rows / elements()) over the offset pointer and the bounds-tracking pointer; same oracle as
        # C05 / C07 / C03: the unchanged driver mmdrv_store (the raw-pointer builds are checked by C05, C07, C03 themselves)
        _store("store_fancy1", 1, ["c05", "c07"], 3200, 160000),
        _store("store_fancy2", 2, ["c05", "c07"], 3200, 160000),
        _algos("algos_fancy1", 1, 4800, 240000),
        _algos("algos_fancy2", 2, 4800, 240000),
        # ---- owning arrays (value worker): the C04/C06 histories of harness/value.cpp over multi::array<T, D, fancy_alloc<T>>, whose
        # ---- allocator hands out fancy::xptr<T> offsets into one arena; oracle = mmdrv_value, answers must equal the raw build's
        _vc.value_harness(["int", "str+full", "int+c06+full", "str+c06"], 800, 64000, name="value_fancy1", extra_flags=["-DPTR_KIND=1"], opt=["-O0"]),
        _vc.value_harness(["int", "str+full", "int+c06+full", "str+c06"], 800, 64000, name="value_fancy2", extra_flags=["-DPTR_KIND=2"], opt=["-O0"]),
    ],
    "trusted_base": TRUSTED_COMMON + ["harness/common/fancy_ptr.hpp: the offset pointer (no conversion to/from T*) and its bounds-tracking variant (for store.cpp / algos.cpp the tracked storage is the union of the program's root arrays, int and long cells, guard cells excluded)",
                                      "for the store / algos streams the oracle is the one of C05 / C07 / C03 (driver mmdrv_store; for C03 the reference computed in the harness on std::vector of independent values)"],
    "assumptions": ["the programs replayed over the pointer types are those of C01/C02/C19 (views, iterators, elements ranges; harness/views.cpp), C05/C07 (assignment, fill, swap, comparisons; harness/store.cpp) and C03 (std:: algorithms; harness/algos.cpp); owning arrays keep std::allocator (raw pointers) — they take part as sources / operands / saved values next to fancy-pointer views, in those streams; arrays with a fancy-pointer allocator are covered by the value_fancy streams",
                    "sort / stable_sort / partial_sort / nth_element on ROWS (D >= 2) of a fancy-pointer view do not compile on the unpatched library (no operator< between the saved owning array over T* and a view over another pointer type; repair in fixes/C11-hetero-less.patch): the harness detects this at compile time and generates those cases only when the library provides the operator",
                    "owning arrays with a fancy allocator: the C04/C06 histories of harness/value.cpp are replayed over multi::array<T, D, fancy_alloc<T>> (allocator pointer = offset pointer; live blocks registered with the tracking pointer; value_fancy1 / value_fancy2, oracle mmdrv_value)",
                    "pointer arithmetic beyond one-past-the-end (inherent in end() of strided views) is not counted; only dereferences are bounds-checked"],
    "rule": VIEW_RULE + "; each program runs over raw T*, a minimal offset pointer and a bounds-tracking pointer; all three answer streams must equal the model's stream; the tracking pointer reports every dereference outside the root's storage (an OOB-DEREF line, which the model never prints); in addition the C05 / C07 programs (tools/props/C05.py STORE_RULE) and the C03 algorithm cases (tools/props/C03.py rule) run over the two fancy pointers against the same model stream as their raw-pointer builds",
    "level_text": "Theorems: every view operation, begin()/end() iterator and elements() position is affine in the base pointer (translation of the base translates every computed pointer and changes nothing else), so interpreting offsets in any lawful pointer type commutes with all operations, and with C01.reachable_in_bounds every dereference stays inside the storage. That the C++ templates use only the pointer's own arithmetic is validated by replaying the programs of C01/C02/C19 (views, iterators, elements()), C05/C07 (deep assignment, fill, swap, element_moved, ==, !=, <, <=, >, >= between views, array_refs and raw-pointer owning arrays, int and long elements) and C03 (20 std:: algorithms on rows and elements()) over a minimal offset pointer and a bounds-tracking pointer against the same model stream as the raw-pointer build; the tracking pointer reports every dereference outside the arrays' storage.",
    "level_note": "Partial by nature (DESIGN §6 C11): template instantiation paths are validated, not proved. Trusted: Lean kernel (+propext, Classical.choice, Quot.sound), MultiModel transcription, the fancy pointer implementations in the harness.",
}
