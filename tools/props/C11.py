from props_common import TRUSTED_COMMON, VIEW_RULE, views_harness

PROP = {
    "lean_targets": ["MultiProofs.C11"],
    "lean_module": "MultiProofs.C11",
    "theorems": [
        "Multi.C11.op_affine",
        "Multi.C11.addr_affine",
        "Multi.C11.iter_affine",
        "Multi.C11.elems_affine",
        "Multi.C11.interp_commutes",
        "Multi.C01.reachable_in_bounds",
    ],
    "harnesses": [
        views_harness(["zero", "rebased"], 3200, 200000, name="views_raw", flags=["-O1", "-g", "-DPTR_KIND=0"]),
        views_harness(["zero", "rebased"], 3200, 200000, name="views_offsetptr", flags=["-O1", "-g", "-DPTR_KIND=1"]),
        views_harness(["zero", "rebased"], 3200, 200000, name="views_checkedptr", flags=["-O1", "-g", "-DPTR_KIND=2"]),
    ],
    "trusted_base": TRUSTED_COMMON + ["harness/common/fancy_ptr.hpp: the offset pointer (no conversion to/from T*) and its bounds-tracking variant"],
    "assumptions": ["the programs replayed over the three pointer types are those of C01/C02/C19 (views, iterators, elements ranges); owning arrays with fancy allocator pointers and C04-C07 programs are not yet replayed over fancy pointers",
                    "pointer arithmetic beyond one-past-the-end (inherent in end() of strided views) is not counted; only dereferences are bounds-checked"],
    "rule": VIEW_RULE + "; each program runs over raw T*, a minimal offset pointer and a bounds-tracking pointer; all three answer streams must equal the model's stream; the tracking pointer reports every dereference outside the root's storage",
    "level_text": "Theorems: every view operation, begin()/end() iterator and elements() position is affine in the base pointer (translation of the base translates every computed pointer and changes nothing else), so interpreting offsets in any lawful pointer type commutes with all operations, and with C01.reachable_in_bounds every dereference stays inside the storage. That the C++ templates use only the pointer's own arithmetic is validated by replaying the programs over a minimal offset pointer and a bounds-tracking pointer against the same model stream.",
    "level_note": "Partial by nature (DESIGN §6 C11): template instantiation paths are validated, not proved. Trusted: Lean kernel (+propext, Classical.choice, Quot.sound), MultiModel transcription, the fancy pointer implementations in the harness.",
}
