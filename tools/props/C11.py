from props_common import TRUSTED_COMMON, VIEW_RULE, views_harness
import value_common as _vc

PROP = {
    "lean_targets": ["MultiProofs.C11"],
    "lean_module": "MultiProofs.C11",
    "theorems": [
        "Multi.C11.op_affine",
        "Multi.C11.addr_affine",
        "Multi.C11.iter_affine",
        "Multi.C11.elems_affine",
        "Multi.C11.interp_commutes",
        "Multi.C01.reachable_in_bounds",
    ],
    "harnesses": [
        views_harness(["zero", "rebased"], 3200, 200000, name="views_raw", flags=["-O1", "-g", "-DPTR_KIND=0"]),
        views_harness(["zero", "rebased"], 3200, 200000, name="views_offsetptr", flags=["-O1", "-g", "-DPTR_KIND=1"]),
        views_harness(["zero", "rebased"], 3200, 200000, name="views_checkedptr", flags=["-O1", "-g", "-DPTR_KIND=2"]),
        # ---- owning arrays (value worker): the C04/C06 histories of harness/value.cpp over multi::array<T, D, fancy_alloc<T>>, whose
        # ---- allocator hands out fancy::xptr<T> offsets into one arena; oracle = mmdrv_value, answers must equal the raw build's
        _vc.value_harness(["int", "str+full", "int+c06+full", "str+c06"], 800, 64000, name="value_fancy1", extra_flags=["-DPTR_KIND=1"], opt=["-O0"]),
        _vc.value_harness(["int", "str+full", "int+c06+full", "str+c06"], 800, 64000, name="value_fancy2", extra_flags=["-DPTR_KIND=2"], opt=["-O0"]),
    ],
    "trusted_base": TRUSTED_COMMON + ["harness/common/fancy_ptr.hpp: the offset pointer (no conversion to/from T*) and its bounds-tracking variant"],
    "assumptions": ["the programs replayed over the three pointer types are those of C01/C02/C19 (views, iterators, elements ranges) and, for owning arrays multi::array<T, D, fancy_alloc<T>> (allocator pointer = offset pointer; live blocks registered with the tracking pointer), the C04/C06 histories of harness/value.cpp (value_fancy1 / value_fancy2; Array.decay() is routed through the view's decay(), see finding C11:decay:CRASH)",
                    "pointer arithmetic beyond one-past-the-end (inherent in end() of strided views) is not counted; only dereferences are bounds-checked"],
    "rule": VIEW_RULE + "; each program runs over raw T*, a minimal offset pointer and a bounds-tracking pointer; all three answer streams must equal the model's stream; the tracking pointer reports every dereference outside the root's storage",
    "level_text": "Theorems: every view operation, begin()/end() iterator and elements() position is affine in the base pointer (translation of the base translates every computed pointer and changes nothing else), so interpreting offsets in any lawful pointer type commutes with all operations, and with C01.reachable_in_bounds every dereference stays inside the storage. That the C++ templates use only the pointer's own arithmetic is validated by replaying the programs over a minimal offset pointer and a bounds-tracking pointer against the same model stream.",
    "level_note": "Partial by nature (DESIGN §6 C11): template instantiation paths are validated, not proved. Trusted: Lean kernel (+propext, Classical.choice, Quot.sound), MultiModel transcription, the fancy pointer implementations in the harness.",
}
