import json, os
from props_common import TRUSTED_COMMON

PROP = {
    "lean_targets": ["MultiProofs.C17"],
    "lean_module": "MultiProofs.C17",
    "theorems": [
        "Multi.C17.save_tokens",
        "Multi.C17.roundtrip",
        "Multi.C17.codec_lawful",
        "Multi.C17.view_saves_canonical",
        "Multi.C17.view_load_exact",
        "Multi.C17.view_roundtrip",
        "Multi.elements_walk",
        "Multi.serialAddrs_canonical",
    ],
    "harnesses": [{"name": "serial", "src": "serial.cpp", "flags": ["-O1", "-DNDEBUG"], "libs": ["-lboost_serialization"], "modes": ["zero", "rebased"],
                   "driver": "mmdrv_sermpi", "programs": {"quick": 16000, "thorough": 640000}}],
    "trusted_base": TRUSTED_COMMON + [
        "Boost.Serialization 1.83: an nvp is its value, make_array(p, n) is the n items in order, a text archive prints one token per arithmetic value and `length chars` per string; "
        "the two class-information tokens at the first occurrence of a class type are removed structurally by the harness",
    ],
    "assumptions": ["element types int, double (multiples of 1/8), std::string without white space, a class type recording the state it is loaded into, nested multi::array<int,1|2>",
                    "the correspondence run is built with -DNDEBUG (see finding C17:assert:reextent-null-offset for the assertion that a debug build hits)"],
    "rule": ("programs = 1..3 save/load pairs (D 0..4, sizes 0..4 incl. zero sizes and non-zero index bases; loading array empty / same extents / same sizes other bases / unrelated / one extent emptied or grown; "
             "6 element types) + for 70% a generated view (C01/C19 vocabulary, D 1..4) saved and loaded into over a 1024-cell buffer; text, binary and XML archives; "
             "distinct = different program text; non-trivial = some saved array or view with >= 2 elements"),
    "level_text": ("Theorems (all D, all extents incl. zero sizes, every prior state of the loading array, every lawful element codec incl. nested arrays): load(save a) into b yields an array with a's reported "
                   "extensions and elements; a view saves exactly its elements in canonical order; loading into a view writes exactly its elements and leaves every other cell unchanged. "
                   "The model is tied to /repo by a differential run against real Boost text/binary/XML archives (token-by-token payload comparison)."),
    "level_note": ("Trusted: Lean kernel, the hand transcription MultiModel/Serial.lean, Boost.Serialization's token order for make_nvp/make_array (hypothesis, validated on every run against the text archive's payload), "
                   "the harness' structural removal of Boost's class-information tokens. Binary and XML archives are covered by round-trip equality only."),
    "hooks": [],
}


def nontrivial(prog_lines, answer_lines):
    for l in answer_lines:
        if l.startswith("ser tok") and " | el" in l:
            if len(l.split(" | el")[1].split(" | pri")[0].split()) >= 2:
                return True
        if l.startswith("vsave tok"):
            if len(l.split(" | ctok")[0].split()) - 2 >= 2:
                return True
        if l.startswith("vload"):
            if len(l.split(" | rt")[0].split()) - 1 >= 2:
                return True
    return False
