import concurrent.futures as cf
import json, os
from props_common import GEN_ITERS_TRUST, TRUSTED_COMMON
import props_common

PROP = {
    "generators": [{"script": "gen_iters.py"}],
    "lean_targets": ["MultiProofs.C17", "MultiProofs.GenTieIter"],
    "lean_module": "MultiProofs.C17",
    "theorems": [
        "Multi.GenTieIter.X_eq_tie",
        "Multi.C17.save_tokens",
        "Multi.C17.roundtrip",
        "Multi.C17.codec_lawful",
        "Multi.C17.view_saves_canonical",
        "Multi.C17.view_load_exact",
        "Multi.C17.view_load_touches_only_view",
        "Multi.C17.view_roundtrip",
        "Multi.C17.reachable_view_load_exact",
        "Multi.C17.reachable_view_roundtrip",
        "Multi.elements_walk",
        "Multi.serialAddrs_canonical",
    ],
    "harnesses": [{"name": "serial", "src": "serial.cpp", "flags": ["-O1", "-g"], "libs": ["-lboost_serialization"], "modes": ["zero", "rebased"],
                   "driver": "mmdrv_sermpi", "programs": {"quick": 16000, "thorough": 640000}}],
    "trusted_base": TRUSTED_COMMON + GEN_ITERS_TRUST + [
        "Boost.Serialization 1.83: an nvp is its value, make_array(p, n) is the n items in order, a text archive prints one token per arithmetic value and `length chars` per string; "
        "the two class-information tokens at the first occurrence of a class type are removed structurally by the harness",
    ],
    "assumptions": ["element types int, double (multiples of 1/8), std::string without white space, a class type recording the state it is loaded into, nested multi::array<int,1|2>",
                    "binary and XML archives: round-trip equality only (their byte format is Boost's)"],
    "rule": ("programs = 1..3 save/load pairs (D 0..4, sizes 0..4 incl. zero sizes and non-zero index bases; loading array empty / same extents / same sizes other bases / unrelated / one extent emptied or grown; "
             "6 element types) + for 70% a generated view (C01/C19 vocabulary, D 1..4) saved and loaded into over a 1024-cell buffer; text, binary and XML archives; "
             "distinct = different program text; non-trivial = some saved array or view with >= 2 elements"),
    "level_text": ("Theorems (all D, all extents incl. zero sizes, every prior state of the loading array, every lawful element codec incl. nested arrays): load(save a) into b yields an array with a's reported "
                   "extensions and elements; a view saves exactly its elements in canonical order; loading into a view writes exactly its elements and leaves every other cell unchanged. "
                   "The model is tied to /repo by a differential run against real Boost text/binary/XML archives (token-by-token payload comparison)."),
    "level_note": ("Trusted: Lean kernel, the hand transcription MultiModel/Serial.lean, Boost.Serialization's token order for make_nvp/make_array (hypothesis, validated on every run against the text archive's payload), "
                   "the harness' structural removal of Boost's class-information tokens. Binary and XML archives are covered by round-trip equality only. "
                   "Which view types can be serialized at all is checked by compile probes (hook view_kinds)."),
    "hooks": ["view_kinds", "debug_witnesses"],
}


def nontrivial(prog_lines, answer_lines):
    for l in answer_lines:
        if l.startswith("ser tok") and " | el" in l:
            if len(l.split(" | el")[1].split(" | pri")[0].split()) >= 2:
                return True
        if l.startswith("vsave tok"):
            if len(l.split(" | ctok")[0].split()) - 2 >= 2:
                return True
        if l.startswith("vload"):
            if len(l.split(" | rt")[0].split()) - 1 >= 2:
                return True
    return False


# ------------------------------------------------------------------------------------------------ compile probes
_PRE = r'''#include <boost/archive/text_oarchive.hpp>
#include <boost/archive/text_iarchive.hpp>
#include <boost/serialization/string.hpp>
#include <boost/multi/array.hpp>
#include <sstream>
#include <numeric>
#include <iostream>
#include <utility>
namespace multi = boost::multi;
// payload of a text archive of a view: everything after the archive header and the view's two class-information tokens
template<class V> std::string sv(V&& v){ std::ostringstream os; { boost::archive::text_oarchive oa(os); oa << v; } std::istringstream is(os.str()); std::string w, out; int k = 0; while(is >> w) { if(k++ >= 5) out += w + " "; } return out; }
int main(){
  multi::array<int,2> a({2,3}); std::iota(a.elements().begin(), a.elements().end(), 10);
  multi::array<int,1> a1({3}, 4); multi::array<int,0> a0(5);
'''

# (key, what, statement, expected stdout); every one of them is a view of an array that the property quantifies over
PROBES = [
    ("C17:compile:mutable-2d-view-save", "saving a mutable 2-D view", "std::cout << sv(a.transposed());", "10 13 11 14 12 15 "),
    ("C17:compile:const-2d-view-save", "saving a 2-D view of a const array", "std::cout << sv(std::as_const(a).transposed());", "10 13 11 14 12 15 "),
    ("C17:compile:mutable-1d-view-save", "saving a mutable 1-D view", "std::cout << sv(a[1]);", "13 14 15 "),
    ("C17:compile:const-1d-view-save", "saving a 1-D view of a const array (`oa << std::as_const(A)[1]`, the begin()/end() overload; did not compile before /repo ac1a032)",
     "std::cout << sv(std::as_const(a)[1]) << sv(std::as_const(a).transposed()[1]) << sv(std::as_const(a1)());", "13 14 15 11 14 4 4 4 "),
    ("C17:compile:mutable-0d-view", "saving and loading a mutable zero-dimensional view (`oa << A0()`; did not compile before /repo e9fd972)",
     "std::cout << sv(a0()); multi::array<int,0> b0(9); auto&& z = b0(); std::ostringstream os; { boost::archive::text_oarchive oa(os); oa << a0(); } std::istringstream is(os.str()); boost::archive::text_iarchive ia(is); ia >> z; std::cout << *b0.data_elements();", "5 5"),
    ("C17:compile:load-1d-view", "loading into a mutable 1-D view", "auto&& r = a[1]; std::ostringstream os; { boost::archive::text_oarchive oa(os); oa << a[0]; } std::istringstream is(os.str()); boost::archive::text_iarchive ia(is); ia >> r; std::cout << a[1][0] << a[1][2];", "1012"),
]

# regression witnesses run with assertions enabled (the correspondence harness is built with assertions too)
WITNESSES = [
    ("C17:assert:load-negative-bases-into-empty", "loading an array whose index range lies below zero into a default-constructed array",
     "multi::array<int,2> x({{-3,-1},{0,2}}, 7); std::ostringstream os; { boost::archive::text_oarchive oa(os); oa << x; } multi::array<int,2> b; std::istringstream is(os.str()); boost::archive::text_iarchive ia(is); ia >> b; std::cout << (b == x) << b.extension().first();", "1-3"),
    ("C17:assert:load-empty-based-array", "loading an array without elements whose inner extension does not start at 0",
     "multi::array<int,2> x(multi::extensions_t<2>{multi::iextension{0,0}, multi::iextension{1,4}}); std::ostringstream os; { boost::archive::text_oarchive oa(os); oa << x; } multi::array<int,2> b({2,2}, 1); std::istringstream is(os.str()); boost::archive::text_iarchive ia(is); ia >> b; std::cout << (b == x) << b.num_elements() << std::get<1>(b.extensions()).first() << std::get<1>(b.extensions()).last();", "1014"),
]


def _open_keys(here):
    """keys of open findings: (in known_findings.json, in findings/C17.json)"""
    def keys(path):
        if not os.path.exists(path):
            return {}
        return {f.get("key"): f for f in json.load(open(path)).get("findings", []) if f.get("status") == "open" and f.get("property") == "C17"}
    return keys(os.path.join(here, "known_findings.json")), keys(os.path.join(here, "findings", "C17.json"))


def _run_probe(ctx, tag, stmt, flags):
    os.makedirs(ctx["build"], exist_ok=True)
    src = os.path.join(ctx["build"], "probe_%s.cpp" % tag)
    exe = src[:-4] + ".x"
    open(src, "w").write(_PRE + "  " + stmt + "\n}\n")
    rc, out = ctx["sh"](["g++", "-std=c++17", "-w"] + flags + [f"-I{ctx['repo']}/include", src, "-o", exe, "-lboost_serialization"], timeout=900)
    if rc != 0:
        errs = [l for l in out.split("\n") if "error" in l]
        return "does-not-compile", (errs[0] if errs else out[-300:])[:400]
    rc, out = ctx["sh"]([exe], timeout=120)
    if rc != 0:
        return "crashes", out[-400:]
    return "ok", out


def _probe_hook(ctx, probes, flags, name):
    known, mine = _open_keys(ctx["here"])
    violations, results = [], {}
    with cf.ThreadPoolExecutor(max_workers=min(8, ctx["ncpu"])) as ex:
        jobs = {key: ex.submit(_run_probe, ctx, key.replace(":", "_"), stmt, flags) for key, _, stmt, _ in probes}
    for key, what, stmt, expect in probes:
        status, out = jobs[key].result()
        good = status == "ok" and out == expect
        results[key] = "ok" if good else status + ": " + out[:160]
        if good:
            continue
        v = {"key": key, "what": what, "failing_input": {"statement": stmt, "prelude": "see tools/props/C17.py:_PRE", "flags": flags}, "observed": status + ": " + out[:400], "expected": expect}
        if key not in known and key in mine:
            # listed as an open finding of this worktree but not (yet) merged into known_findings.json
            print(f"KNOWN-FINDING: property=C17 {mine[key]['what']}")
            results[key] += " (open finding in findings/C17.json)"
            continue
        violations.append(v)
    return {"violations": violations, "stats": {name: results}}


def view_kinds(ctx):
    """which view types can be saved / loaded at all (a property about every view is void for a view type whose serialize does not compile)"""
    return _probe_hook(ctx, PROBES, ["-O0"], "compile_probes")


def debug_witnesses(ctx):
    """inputs that used to hit `BOOST_MULTI_ASSERT(this->base_ || ...)` inside reextent on the load path (fixed in /repo by 'reextent ... copies the common part element-wise')"""
    return _probe_hook(ctx, WITNESSES, ["-O1", "-g"], "assertion_witnesses")


def reproduce_finding(f, ctx):
    w = f.get("witness", {})
    if w.get("kind") == "probe":
        status, out = _run_probe(ctx, "finding_" + f.get("key", "").replace(":", "_"), w["statement"], w.get("flags", ["-O0"]))
        return not (status == "ok" and out == w.get("expected"))
    return props_common.reproduce_finding(f, ctx)
