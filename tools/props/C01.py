from props_common import GEN_LAYOUT_TRUST, TRUSTED_COMMON, VIEW_RULE, views_harness

PROP = {
    "generators": [{"script": "gen_layout.py"}],
    "lean_targets": ["MultiProofs.C01", "MultiProofs.Inj", "MultiProofs.GenTie"],
    "lean_module": "MultiProofs.Inj",
    "theorems": [
        "Multi.GenTie.range_functions_are_the_code",
        "Multi.GenTie.layout_functions_are_the_code",
        "Multi.GenTie.view_functions_are_the_code",
        "Multi.GenTie.V_diagonal_aux_tie",
        "Multi.C01.root_denotes",
        "Multi.C01.op_refines",
        "Multi.C01.reachable_denotes",
        "Multi.C01.reachable_in_bounds",
        "Multi.reachable_injective",
        "Multi.C01.shape_functions_agree",
        "Multi.C01.strides_are_address_steps",
        "Multi.C01.paths_agree",
        "Multi.C01.broadcast_designates_source",
    ],
    "harnesses": [views_harness(["c01"], 4800, 320000, modes_thorough=["c01", "exhaustive"])],
    "trusted_base": TRUSTED_COMMON + GEN_LAYOUT_TRUST,
    "assumptions": ["index arithmetic does not overflow ptrdiff_t", "element type int, raw pointers (other pointer types: C11)"],
    "rule": VIEW_RULE,
    "level_text": "Theorems (all D, all extents, all finite in-domain op sequences): each operation as coded refines its documented shape/index map; by induction every reachable view denotes the composed map, stays inside the root's storage, and size/sizes/num_elements/is_empty/strides and all access paths agree. The model is tied to /repo by a differential run of generated op sequences through the real templates.",
    "level_note": "Trusted: Lean kernel (+propext, Classical.choice, Quot.sound), the hand transcription MultiModel/{Layout,View}.lean validated by the correspondence run only, Int for ptrdiff_t. flatted is claimed under the library's own is_flattable guard; diagonal for zero-based leading dimensions; element type int and raw pointers in the correspondence run.",
}
