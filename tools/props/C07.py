from props_common import GEN_STORE_TRUST, TRUSTED_COMMON
import importlib.util, os
_spec = importlib.util.spec_from_file_location("props_C05_shared", os.path.join(os.path.dirname(os.path.abspath(__file__)), "C05.py"))
_c05 = importlib.util.module_from_spec(_spec); _spec.loader.exec_module(_c05)


def nontrivial(prog_lines, answer_lines):
    has_cmp = any(l.startswith(("q eq", "q ne", "q lt", "q le", "q gt", "q ge")) for l in prog_lines)
    return has_cmp and _c05._shape_ne(answer_lines) >= 2


def compare_histogram(ctx):
    """coverage statistics: relational operator x operand forms (v view, c view over pointer-to-const, r array_ref, a owning array)"""
    import glob, os
    hist = {}
    for f in glob.glob(os.path.join(ctx["build"], "prog.store.c07.*.txt")):
        for l in open(f):
            w = l.split()
            if len(w) == 4 and w[0] == "q" and w[1] in ("eq", "ne", "lt", "le", "gt", "ge"):
                k = w[1] + ":" + w[2][0] + w[3][0]
                hist[k] = hist.get(k, 0) + 1
    return {"stats": {"queries_per_operator_and_operand_forms": dict(sorted(hist.items()))}, "violations": []}


PROP = {
    "generators": [{"script": "gen_store.py"}],
    "hooks": ["compare_histogram"],
    "lean_targets": ["MultiProofs.C07", "MultiProofs.GenTieStore", "MultiProofs.CodeRefinesC07"],
    "lean_module": "MultiProofs.C07",
    "theorems": [
        "Multi.CodeRefines.code_eq_iff",
        "Multi.GenTieStore.AR_eq_tie",
        "Multi.GenTieStore.comparison_is_the_code",
        "Multi.GenTieStore.V_lex_tie",
        "Multi.listLex_strictTotal",
        "Multi.lexN_strictTotal",
        "Multi.C07.eq_iff",
        "Multi.C07.exts_eqv_iff",
        "Multi.C07.eq0_iff",
        "Multi.C07.ne_is_not_eq",
        "Multi.C07.aref_eq_iff",
        "Multi.C07.lt_is_lex",
        "Multi.C07.gt_is_lt_swapped",
        "Multi.C07.lt_irrefl",
        "Multi.C07.lt_trans",
        "Multi.C07.lt_trichotomy",
        "Multi.C07.eq_iff_same_value",
        "Multi.C07.exactly_one",
        "Multi.C07.le_is_lt_or_eq",
    ],
    "harnesses": [_c05.store_harness("store", ["c07"], 9600, 480000)],
    "trusted_base": TRUSTED_COMMON + GEN_STORE_TRUST + [
        "std::equal / std::lexicographical_compare are modelled by their contract over the library's iterators (counted loops); libstdc++ is not verified",
        "an owning array operand is modelled as a contiguous copy of the view's value (copy construction itself is C04's subject)",
    ],
    "assumptions": ["index arithmetic does not overflow ptrdiff_t", "raw pointers; element types int and long (mixed-type operands: == and != only, the library has no mixed-type <)",
                    "ordering theorems are for zero-based operands of equal dimensionality (the property's quantifier); the library's pre-test on the first index is transcribed and differentially validated but plays no role for zero-based operands",
                    "operator>= exists only for D <= 1, so for D >= 2 there is no behaviour to check; array<T,0> == array<T,0> is ambiguous at compile time (no run-time behaviour)"],
    "rule": ("programs = three views of one dimensionality (D 0..4, sizes 0..5, int or long elements, equal or different extents, embedded with different offsets / strides / "
             "storage orders in different arrays, or whole array_refs / owning copies), made equal by real assignments and then perturbed in single elements; all ordered pairs "
             "queried with ==, !=, <, <=, >, (>= for D=1) in random operand forms (view, view over pointer-to-const, array_ref, owning array); every answer is also compared "
             "inside the harness with the relation on plain nested values; distinct = different program text; non-trivial = at least one comparison and a view with >= 2 elements"),
    "level_text": "Theorems (all D, all extents, any two well-formed layouts): the transcribed view == is true exactly when the extensions are equal (the library's comparison = list equality for well-formed views) and the elements at every index tuple are equal; != is its negation (also for array_ref's flat ==/!=); the transcribed lexicographical_compare (first-index pre-test, std::lexicographical_compare over begin()/end() rows, recursively) equals the lexicographic order on the nested-sequence denotation for zero-based operands of equal dimensionality; hence < is irreflexive, transitive, trichotomous, and for non-empty operands exactly one of a<b, a==b, b<a holds; <=, >, >= as coded are < or ==, swapped <. Tied to /repo by a differential run of every operator on generated view triples. The comparison operators of views (D>1, D=1, including the bodies of lexicographical_compare), element ranges and array_refs are regenerated from /repo's source on every run and proved equal to the model (GenTieStore.lean); code_eq_iff states eq_iff about the regenerated operator.",
    "level_note": "Trusted: Lean kernel (+propext, Classical.choice, Quot.sound), the transcription MultiModel/{Iter,Store}.lean validated by the correspondence run, the std algorithm contracts, Int for ptrdiff_t. Pointer type and constness of operands are exercised by the harness (pointer-to-const views, array_ref, owning arrays) but not distinguished in the model.",
}
