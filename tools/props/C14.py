import os
from props_common import TRUSTED_COMMON

LIBS = ["-Wl,--no-as-needed", "-llapack", "-lopenblas", "-ldl"]
ENV = {"OPENBLAS_NUM_THREADS": "1"}

PROP = {
    "lean_targets": ["MultiProofs.C14"],
    "lean_module": "MultiProofs.C14",
    "theorems": [
        "Multi.C14.matrix_view",
        "Multi.C14.leading_block",
        "Multi.C14.potrf_orientation",
        "Multi.C14.gesvd_reconstructs",
        "Multi.C14.geqrf_arguments",
        "Multi.C14.geqrf_needs_unit_inner_stride",
        "Multi.C14.syev_arguments",
        "Multi.C14.syev_result",
        "Multi.C14.syev_overloads",
        "Multi.C14.syev_eigenpairs",
    ],
    # potrf.hpp and geqrf.hpp cannot be included in one translation unit at the pinned commit: the harness is built twice
    "harnesses": [
        {"name": "lapack_potrf", "src": "lapack.cpp", "flags": ["-O1", "-g", "-DLAPACK_PART=1"], "libs": LIBS, "env": ENV, "modes": ["x"], "driver": "mmdrv_lapack",
         "programs": {"quick": 8000, "thorough": 360000}},
        {"name": "lapack_qr", "src": "lapack.cpp", "flags": ["-O1", "-g", "-DLAPACK_PART=2"], "libs": LIBS, "env": ENV, "modes": ["x"], "driver": "mmdrv_lapack",
         "programs": {"quick": 8000, "thorough": 360000}},
        {"name": "lapack_syev", "src": "lapack.cpp", "flags": ["-O1", "-g", "-DLAPACK_PART=3"], "libs": LIBS, "env": ENV, "modes": ["x"], "driver": "mmdrv_lapack",
         "programs": {"quick": 8000, "thorough": 360000}},
    ],
    "hooks": ["probe_geqrf_inner_stride", "probe_syev_compiles", "count_large_sizes"],
    "trusted_base": TRUSTED_COMMON + [
        "LAPACK contracts PotrfPost / GesvdPost (MultiModel/Lapack.lean): DPOTRF factors the selected triangle of the column-major matrix it is given, writes only that triangle, info = order of the first non-positive leading minor; DGESVD('A','A') returns U, s, VT with A = U diag(s) VT. DSYEV('V') returns in column k an eigenvector of the symmetric matrix read from the selected triangle for the eigenvalue w[k] (SyevPost). DGEQRF's contract (reflectors + tau) is not formalised: validated numerically",
        "link-time interposition of dpotrf_/dgeqrf_/dgesvd_/dsyev_ (dlsym RTLD_NEXT) shows exactly what the adaptor passes; reference LAPACK + OpenBLAS (single thread) as the executor",
        "numerics (rounding, ordering of singular values, detection of the failing minor) are validated by the run, never proved",
    ],
    "assumptions": [
        "matrix views are zero-based and well formed; potrf: square n x n with unit leading or unit inner stride (asserted by the adaptor); geqrf/gesvd: unit inner stride (asserted by both)",
        "element type double (dpotrf_/dgeqrf_/dgesvd_); the complex instantiations share the same argument logic",
        "syev: square n x n with unit inner or unit leading stride (anything else is assert(0)), w and work with unit stride, size(work) >= max(1, 3n-1) (asserted); info = 0 (non-convergence of DSYEV cannot be provoked)",
        "the orientation of the eigenvectors depends on the storage: rows of a view with unit inner stride, columns of one with unit leading stride; the const& overloads work on a row-major copy and always return rows (proved as coded, documented, not filed)",
    ],
    "rule": ("programs = one routine call on generated views (sizes 1..8 as a rule; in about 4% of the programs a size from {15,16,17,31,32,33,63,64,65,127,128,129,130,200,257}, rectangular routines with one large and one small dimension too, so that size-dependent code paths are crossed): potrf on n x n (n 1..8), row-major or transposed storage, contiguous or padded sub-block, either triangle, positive definite "
             "or with a chosen first non-positive leading minor; geqrf on p x q (1..8) row-major contiguous/padded with a padded tau; gesvd on p x q with padded UU, ss, VV; syev on n x n (1..8) in both storages, padded, both triangles, the five overloads (explicit workspace possibly larger than needed, automatic workspace, eigenvalues returned, const input); "
             "distinct = different program text; non-trivial = matrix order >= 2"),
    "level_text": "Theorems (all sizes, both triangles, both storage orientations, any leading dimension; real case over a commutative ring, under stated LAPACK contracts): potrf passes the character, order, pointer and leading dimension for which LAPACK's column-major matrix is the logical view (stride(A)==1 branch, flipped filling) or its transpose (row-major branch), so the selected LOGICAL triangle of the leading r x r block (r = n or info-1) holds T with T^T T = A resp. T T^T = A and only that triangle of the view is written; geqrf's and gesvd's arguments denote the transpose of the logical view element by element, and the three gesvd outputs satisfy AA = UU diag(ss) VV in the views' own index spaces; syev's two branches read the logical triangle and, under DSYEV's contract, leave in row k (unit inner stride) resp. column k (unit leading stride) of the view an eigenvector of the logical symmetric matrix for w[k]; its workspace, returned block and convenience overloads are as asserted. The model is tied to /repo by interposed capture of the real Fortran calls; reconstruction residuals, triangle-only writes and guard cells are checked numerically.",
    "level_note": "Partial: orientation/argument logic proved under stated LAPACK contracts (trusted); 'within rounding error', eigen/singular value order and DGEQRF's reflector format are validated only. No open finding. Fixed in /repo: syev.hpp did not compile; potrf's r x n result for row-major non-positive-definite input; geqrf's unchecked inner stride.",
}


def nontrivial(prog_lines, answer_lines):
    for l in answer_lines:
        w = l.split()
        if w and w[0] == "potrf" and int(w[2]) >= 2:
            return True
        if w and w[0] == "geqrf" and int(w[1]) >= 2 and int(w[2]) >= 2:
            return True
        if w and w[0] == "gesvd" and int(w[3]) >= 2 and int(w[4]) >= 2:
            return True
        if w and w[0] == "syev" and int(w[3]) >= 2:
            return True
    return False


def finding_key(program, impl_lines, model_lines):
    x = [l.split() for l in program if l.startswith("x ")]
    routine = x[0][1] if x else "?"
    kind = "?"
    for a, b in zip(impl_lines, model_lines):
        if a != b:
            kind = (a.split() or ["?"])[0]
            break
    extra = ""
    if routine == "potrf" and x:
        logical = x[0][3]
        fail_k = int(x[0][5])
        call = [l.split() for l in impl_lines if l.startswith("potrf ")]
        # row-major branch: the character passed is the enum's own value (upper -> 'L', lower -> 'U')
        rowmajor = bool(call) and call[0][1] == {"U": "L", "L": "U"}[logical]
        extra = (":rowmajor" if rowmajor else ":colmajor") + (":nonpd" if fail_k > 0 else ":pd")
    return f"C14:{routine}:{kind}{extra}"


# ------------------------------------------------------------------------------------------------ hooks
GEQRF_WITNESS = [
    "prog 0 0",
    "root 2 40 2 0 4 0 6",
    "v 1 2 rotated",
    "v 1 1 strided 2",
    "v 1 1 unrotated",
    "root 4 80 1 0 3",
    "v 3 4 sliced 0 3",
    "x geqrf 1 3 12345",
]


def _build_part(ctx, part):
    exe = os.path.join(ctx["build"], "hook_lapack%d" % part)
    src = os.path.join(ctx["here"], "harness", "lapack.cpp")
    rc, out = ctx["sh"](["g++", "-std=c++17", "-w", "-O1", "-g", "-DLAPACK_PART=%d" % part, f"-I{ctx['repo']}/include", f"-I{ctx['here']}/harness", src, "-o", exe] + LIBS, timeout=1200)
    return (exe if rc == 0 else None), out


def probe_geqrf_inner_stride(ctx):
    """geqrf on a 4x3 view whose columns are every other column of a 4x6 array (inner stride 2).  Either the adaptor rejects the
    view (assertion / exception) or it must factor it correctly without touching the skipped columns."""
    import subprocess
    os.makedirs(ctx["build"], exist_ok=True)
    exe, log = _build_part(ctx, 2)
    if exe is None:
        return {"violations": [{"key": "C14:hook:harness-does-not-build", "what": "lapack harness (part 2) does not build", "detail": log[-800:]}], "obligations": 1, "discharged": 0}
    src = os.path.join(ctx["build"], "geqrf_witness.in")
    open(src, "w").write("\n".join(GEQRF_WITNESS) + "\n")
    prog, ans = os.path.join(ctx["build"], "geqrf_witness.prog"), os.path.join(ctx["build"], "geqrf_witness.impl")
    env = dict(os.environ, **ENV)
    p = subprocess.run([exe, "0", "0", "x", prog, ans, "--replay", src], stdout=subprocess.PIPE, stderr=subprocess.STDOUT, text=True, env=env, timeout=300)
    impl = [l for l in open(ans).read().split("\n") if l] if os.path.exists(ans) else []
    rejected = p.returncode not in (0, 3) and ("Assertion" in p.stdout or "assert" in p.stdout.lower())
    rejected = rejected or any(l.startswith("outcome throw") for l in impl)
    bad = any(("FAIL" in l) for l in impl if l.startswith("num "))
    stats = {"rc": p.returncode, "impl": impl, "rejected": rejected}
    if rejected or not bad:
        return {"violations": [], "stats": stats, "obligations": 1, "discharged": 1}
    return {"violations": [{"key": "C14:geqrf:inner-stride-unchecked", "failing_input": True, "program": GEQRF_WITNESS, "observed_impl": impl,
                            "expected": "the view is rejected, or 'num ok | frame ok'",
                            "what": "geqrf accepts a view with inner stride 2 (the assertion stride(~aa)==1 is commented out), factors the wrong cells and writes between the view's elements",
                            "replay_cmd": "harness/lapack.cpp -DLAPACK_PART=2 --replay <program>"}],
            "stats": stats, "obligations": 1, "discharged": 0}


def probe_syev_compiles(ctx):
    """syev.hpp is claimed by the property: it must compile (it did not before the fix commit); the run itself is harness lapack_syev"""
    os.makedirs(ctx["build"], exist_ok=True)
    src = os.path.join(ctx["build"], "syev_probe.cpp")
    open(src, "w").write("#include <boost/multi/array.hpp>\n#include <boost/multi/adaptors/lapack/syev.hpp>\nint main() { return 0; }\n")
    rc, out = ctx["sh"](["g++", "-std=c++17", "-w", "-fsyntax-only", f"-I{ctx['repo']}/include", src], timeout=600)
    if rc != 0:
        first = [l for l in out.split("\n") if "error" in l][:3]
        return {"violations": [{"key": "C14:syev:does-not-compile", "failing_input": True, "program": ["#include <boost/multi/adaptors/lapack/syev.hpp>"],
                                "observed_impl": first, "what": "syev.hpp does not compile (malformed #include lines, core::syev undeclared): the syev part of the property cannot be exercised"}],
                "stats": {"compiles": False, "note": "correspondence probe, not a proof obligation: the syev transcription has no executable counterpart to be validated against (open finding)"},
                "obligations": 0, "discharged": 0}
    # it compiles: the lapack_syev harness (LAPACK_PART=3) exercises it in the correspondence run
    return {"violations": [], "stats": {"compiles": True}, "obligations": 1, "discharged": 1}


def reproduce_finding(f, ctx):
    """witness kinds: 'program' (default machinery) and 'hook' (re-run the named probe and look for the finding's key)"""
    import props_common
    w = f.get("witness", {})
    if w.get("kind") == "hook":
        hctx = dict(repo=ctx["repo"], here=ctx["here"], build=ctx["build"], sh=ctx["sh"])
        res = globals()[w["hook"]](hctx)
        return any(v.get("key") == f.get("key") for v in res.get("violations", []))
    return props_common.reproduce_finding(f, ctx)


def _observable(lines):
    """everything but the interposed LAPACK call lines (the arguments the adaptor passes are how the model is tied to the code; the
    property is about what comes out: outcome, order, returned block, reconstruction, frame)"""
    return [l for l in lines if l.split(" ", 1)[0] not in ("potrf", "geqrf", "gesvd", "syev", "unexpected")]


def property_fails(impl_lines, model_lines):
    return _observable(impl_lines) != _observable(model_lines)


def count_large_sizes(ctx):
    """how many calls with a dimension >= 15 (sizes around powers of two up to 257) the run made, per routine; a run that no longer
    leaves the small sizes cannot see a size-dependent code path (a seeded n > 128 shortcut in syev was once missed for that reason)"""
    import glob, os
    counts, ge129 = {}, {}
    for f in glob.glob(os.path.join(ctx["build"], "impl.lapack_*.out")):
        for l in open(f, errors="replace"):
            w = l.split()
            if not w:
                continue
            try:
                if w[0] == "potrf":
                    n = int(w[2])
                elif w[0] == "geqrf" and w[-1] == "compute":
                    n = max(int(w[1]), int(w[2]))
                elif w[0] == "gesvd" and w[-1] == "compute":
                    n = max(int(w[3]), int(w[4]))
                elif w[0] == "syev":
                    n = int(w[3])
                else:
                    continue
            except (ValueError, IndexError):
                continue
            if n >= 15:
                counts[w[0]] = counts.get(w[0], 0) + 1
            if n >= 129:
                ge129[w[0]] = ge129.get(w[0], 0) + 1
    stats = {"calls_with_a_dimension_ge_15": counts, "calls_with_a_dimension_ge_129": ge129}
    floor = 20
    missing = [r for r in ("potrf", "geqrf", "gesvd", "syev") if counts.get(r, 0) < floor or ge129.get(r, 0) < 3]
    if missing:
        return {"violations": [{"key": "C14:generator:large-sizes-not-reached", "what": f"fewer than {floor} calls with a dimension >= 15 (or fewer than 3 with >= 129) for {missing}: size-dependent code paths are not exercised"}],
                "stats": stats, "obligations": 1, "discharged": 0}
    return {"violations": [], "stats": stats, "obligations": 1, "discharged": 1}
