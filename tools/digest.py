#!/usr/bin/env python3
"""Source digests (DESIGN §3c): a comment- and whitespace-insensitive digest of every header of /repo ($VERIF_REPO).

    digest.py            prints the files whose digest differs from the committed snapshot tools/source_digests.json
    digest.py --update   rewrites the snapshot from the current tree (after a reviewed `fix:` commit in /repo)

A changed digest is NEVER a verdict.  `check` uses it only to ESCALATE the search: when a file a property is anchored in
(properties.jsonl: anchors.files) differs from the snapshot, the quick tier of that property runs its generators at a
multiple of the usual volume, because changed code is where a rare input is worth looking for.  Recorded in the evidence."""
import hashlib, json, os, re, sys

HERE = os.path.dirname(os.path.dirname(os.path.abspath(__file__)))
REPO = os.environ.get("VERIF_REPO", "/repo")
SNAP = os.path.join(HERE, "tools", "source_digests.json")


def normalise(text):
    text = re.sub(r"/\*.*?\*/", " ", text, flags=re.S)
    text = re.sub(r"//[^\n]*", "", text)
    return re.sub(r"\s+", "", text)


def current():
    out = {}
    root = os.path.join(REPO, "include", "boost", "multi")
    for dp, _, fs in os.walk(root):
        for f in sorted(fs):
            if f.endswith((".hpp", ".h")):
                p = os.path.join(dp, f)
                rel = os.path.relpath(p, REPO)
                try:
                    out[rel] = hashlib.sha256(normalise(open(p, errors="replace").read()).encode()).hexdigest()
                except OSError:
                    pass
    return out


def changed_files():
    try:
        snap = json.load(open(SNAP))["files"]
    except Exception:  # noqa
        return None   # no snapshot: no escalation
    cur = current()
    return sorted(set(f for f in set(snap) | set(cur) if snap.get(f) != cur.get(f)))


def anchors(pid):
    for l in open(os.path.join(HERE, "properties.jsonl")):
        d = json.loads(l)
        if d["id"] == pid:
            return [f for f in d["anchors"]["files"] if f.endswith((".hpp", ".h"))]
    return []


def changed_for(pid):
    ch = changed_files()
    if not ch:
        return []
    a = set(anchors(pid))
    # adaptor properties: any file under the adaptor's directory counts
    dirs = {os.path.dirname(f) for f in a if "/adaptors/" in f}
    return [f for f in ch if f in a or any(f.startswith(d + "/") for d in dirs)]


if __name__ == "__main__":
    if "--update" in sys.argv:
        json.dump({"repo_head": os.popen(f"git -C {REPO} rev-parse HEAD 2>/dev/null").read().strip(), "files": current()}, open(SNAP, "w"), indent=1, sort_keys=True)
        print("snapshot rewritten:", SNAP)
    else:
        ch = changed_files()
        print("no snapshot" if ch is None else ("unchanged" if not ch else "\n".join(ch)))
