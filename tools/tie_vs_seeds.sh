#!/bin/sh
# Maintenance: which stored seeds break the model=source tie ALONE (no differential run)?  Works on a private copy of
# tools/ and lean/ under /var/tmp/tie so that /verif is not disturbed.   usage: tools/tie_vs_seeds.sh [seed-dir...]
set -u
W=/var/tmp/tie
rm -rf $W; mkdir -p $W
cp -r /verif/tools $W/tools; cp -r /verif/lean $W/lean
cd $W
seeds="$@"; [ -z "$seeds" ] && seeds=$(ls -d /verif/seeded/*/ | xargs -n1 basename)
for s in $seeds; do
  pf=/verif/seeded/$s/patch.diff; [ -f "$s" ] && pf="$s"; [ -f "$pf" ] || continue
  rm -rf $W/r; mkdir -p $W/r; cp -r /repo/include $W/r/include
  (cd $W/r && git init -q . 2>/dev/null && git apply -p1 "$pf" 2>/dev/null) || { echo "$s: patch does not apply to the current tree"; continue; }
  g1=$(VERIF_REPO=$W/r python3 tools/gen_layout.py | grep -c ERROR)
  g2=$(VERIF_REPO=$W/r python3 tools/gen_iters.py | grep -c ERROR)
  g3=$(VERIF_REPO=$W/r python3 tools/gen_store.py | grep -c ERROR)
  g4=$(VERIF_REPO=$W/r python3 tools/gen_casts.py | grep -c ERROR)
  b=$(cd lean && lake build MultiProofs.GenTie MultiProofs.GenTieIter MultiProofs.GenTieStore MultiProofs.GenTieCast 2>&1 | grep -c "^error")
  if [ -n "${TIE_VERBOSE:-}" ]; then for g in gen_layout gen_iters gen_store gen_casts; do VERIF_REPO=$W/r python3 tools/$g.py | grep ERROR | cut -c1-300; done; (cd lean && lake build MultiProofs.GenTie MultiProofs.GenTieIter MultiProofs.GenTieStore MultiProofs.GenTieCast 2>&1 | grep "^error" | cut -c1-200); fi
  if [ "$g1$g2$g3$g4" != "0000" ]; then echo "$s: BROKEN (translator error: layout=$g1 iters=$g2 store=$g3 casts=$g4)"; elif [ "$b" != "0" ]; then echo "$s: BROKEN (tie proof fails)"; else echo "$s: tie holds"; fi
done
rm -rf $W
