#!/usr/bin/env python3
"""Maintenance tool (never run by a check): folds the per-property files findings/CNN.json into known_findings.json so that
known_findings.json is the single committed record of every genuine defect (open = still in /repo, fixed = repaired by the named
`fix:` commit).  Entries are identified by (property, key); the per-property file wins for fields it defines.  Also regenerates
the human-readable list `fixed_lines` / `open_lines`."""
import json, os, glob, subprocess
HERE = os.path.dirname(os.path.dirname(os.path.abspath(__file__)))
kp = os.path.join(HERE, "known_findings.json")
k = json.load(open(kp))
ents = k["findings"]
idx = {(e["property"], e["key"]): e for e in ents}
for p in sorted(glob.glob(os.path.join(HERE, "findings", "*.json"))):
    for e in json.load(open(p)).get("findings", []):
        key = (e["property"], e["key"])
        if key in idx:
            idx[key].update(e)
        else:
            ents.append(e)
            idx[key] = e
subjects = {}
for l in subprocess.run(["git", "-C", os.environ.get("VERIF_REPO", "/repo"), "log", "--format=%h %s"], stdout=subprocess.PIPE, text=True).stdout.split("\n"):
    if l:
        subjects[l.split()[0][:7]] = l
fixed, opened = [], []
for e in ents:
    what = " ".join(str(e.get("what", "")).split())
    if e["status"] == "fixed":
        c = str(e.get("commit", "")).split()[0][:7] if e.get("commit") else "?"
        w = what if not what.startswith("fixed: property=") else what.split(" ", 3)[3]
        fixed.append(f"fixed: property={e['property']} {c} {w[:300]}")
    else:
        opened.append(f"KNOWN-FINDING: property={e['property']} {e['key']}: {what[:300]}")
k["fixed_lines"] = fixed
k["open_lines"] = opened
json.dump(k, open(kp, "w"), indent=1)
print(len(ents), "entries:", len(fixed), "fixed,", len(opened), "open")
