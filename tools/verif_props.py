"""Per-property configuration of ./check: Lean targets and theorems (proof obligations), harness streams
(correspondence), hooks (property-specific extra checks), trusted base, non-triviality rules."""
import os, json, re

TRUSTED_COMMON = [
    "Lean 4.33.0 kernel; axioms allowed: propext, Classical.choice, Quot.sound (audited with #print axioms on every run)",
    "hand transcription of the C++ into lean/MultiModel, tied to /repo by the differential run (harness built from /repo's working tree each run)",
    "C++ ptrdiff_t arithmetic = Lean Int arithmetic with Int.tdiv/Int.tmod (overflow outside every property's quantifier)",
    "g++ 12 / libstdc++ as the executor of the real templates; the harness' own generator and canonical printer",
]

VIEW_RULE = ("programs = root extents (D 1..4, sizes 0..6, num_elements <= 240) + 0..7 in-domain view operations drawn from the real view's "
             "current shape + queries; distinct = different program text; non-trivial = at least one operation and a queried view with >= 2 elements")


def _views_harness(modes, quick, thorough):
    return {"name": "views", "src": "views.cpp", "flags": ["-O1", "-g"], "modes": modes, "programs": {"quick": quick, "thorough": thorough}}


C01_THEOREMS = [
    "Multi.C01.root_denotes",
    "Multi.C01.op_refines",
    "Multi.C01.reachable_denotes",
    "Multi.C01.reachable_in_bounds",
    "Multi.C01.shape_functions_agree",
    "Multi.C01.strides_are_address_steps",
    "Multi.C01.paths_agree",
    "Multi.C01.broadcast_designates_source",
]

PROPS = {
    "C01": {
        "lean_targets": ["MultiProofs.C01"],
        "lean_module": "MultiProofs.C01",
        "theorems": C01_THEOREMS,
        "harnesses": [_views_harness(["zero"], 4800, 320000)],
        "trusted_base": TRUSTED_COMMON,
        "assumptions": ["index arithmetic does not overflow ptrdiff_t", "element type int, raw pointers (other pointer types: C11)"],
        "rule": VIEW_RULE,
        "level_text": "Theorems (all D, all extents, all finite in-domain op sequences): each operation as coded refines its documented shape/index map; by induction every reachable view denotes the composed map, stays inside the root's storage, and size/sizes/num_elements/is_empty/strides and all access paths agree. The model is tied to /repo by a differential run of generated op sequences through the real templates.",
        "level_note": "Trusted: Lean kernel (+propext, Classical.choice, Quot.sound), the hand transcription MultiModel/{Layout,View}.lean validated by the correspondence run only, Int for ptrdiff_t. flatted is claimed under the library's own is_flattable guard; diagonal for zero-based leading dimensions; element type int and raw pointers in the correspondence run.",
    },
}


def nontrivial(pid, prog_lines, answer_lines):
    """a generated program counts as non-trivial if it applies at least one operation and some queried view has >= 2 elements"""
    has_op = any(l.startswith("v ") or l.startswith("x ") for l in prog_lines)
    big = False
    for l in answer_lines:
        w = l.split()
        if len(w) >= 2 and w[0] in ("addrs", "elems", "paths") and w[1].lstrip("-").isdigit() and int(w[1]) >= 2:
            big = True
        if len(w) >= 2 and w[0] == "iter" and w[1].lstrip("-").isdigit() and int(w[1]) >= 2:
            big = True
    return has_op and big


def finding_key(pid, program, impl_lines, model_lines):
    """class of a disagreement, matched against known_findings.json (operation of the last view op + kind of first differing answer)"""
    ops = [l.split()[3] for l in program if l.startswith("v ") and len(l.split()) > 3]
    kind = "?"
    for a, b in zip(impl_lines, model_lines):
        if a != b:
            kind = (a.split() or ["?"])[0]
            break
    return f"{pid}:{'+'.join(sorted(set(ops)))}:{kind}"


def reproduce_finding(f, ctx):
    """re-run the witness of an open finding against the real code; True if it still fails"""
    w = f.get("witness", {})
    if w.get("kind") == "program":
        import importlib
        cfg = PROPS[ctx["pid"]]
        h = [x for x in cfg["harnesses"] if x["src"] == w["harness"]][0]
        exe, _ = ctx["build_harness"](ctx["pid"], h)
        if exe is None:
            return True
        il, ml, crashed, _ = ctx["replay_program"](exe, w.get("mode", "zero"), w["program"], ctx["build"], "finding")
        return il != ml or crashed
    if w.get("kind") == "cpp":
        src = os.path.join(ctx["build"], "finding.cpp")
        os.makedirs(ctx["build"], exist_ok=True)
        open(src, "w").write(w["source"])
        exe = os.path.join(ctx["build"], "finding.x")
        rc, out = ctx["sh"](["g++", "-std=c++17", "-w"] + w.get("flags", ["-O1"]) + [f"-I{ctx['repo']}/include", src, "-o", exe] + w.get("libs", []), timeout=600)
        if rc != 0:
            return w.get("fails_by") == "compiles" and False
        rc, out = ctx["sh"]([exe], timeout=120)
        return rc != 0
    return True
