"""Loads the per-property configuration modules tools/props/CNN.py.

Each module defines PROP (dict, see tools/props/C01.py for the keys) and may define
  nontrivial(prog_lines, answer_lines) -> bool
  finding_key(program, impl_lines, model_lines) -> str
  reproduce_finding(finding, ctx) -> bool            (does the open finding's witness still fail on the real code?)
  any hook function named in PROP["hooks"]:  hook(ctx) -> {"violations": [...], "stats": {...}, "obligations": n, "discharged": n}
"""
import os, sys, importlib.util, glob

HERE = os.path.dirname(os.path.abspath(__file__))
sys.path.insert(0, HERE)
import props_common  # noqa: E402

PROPS = {}
MODS = {}
for path in sorted(glob.glob(os.path.join(HERE, "props", "C*.py"))):
    pid = os.path.basename(path)[:-3]
    spec = importlib.util.spec_from_file_location("props_" + pid, path)
    mod = importlib.util.module_from_spec(spec)
    spec.loader.exec_module(mod)
    PROPS[pid] = mod.PROP
    MODS[pid] = mod


def nontrivial(pid, prog_lines, answer_lines):
    f = getattr(MODS[pid], "nontrivial", props_common.nontrivial)
    return f(prog_lines, answer_lines)


def finding_key(pid, program, impl_lines, model_lines):
    f = getattr(MODS[pid], "finding_key", None)
    if f:
        return f(program, impl_lines, model_lines)
    return props_common.finding_key(pid, program, impl_lines, model_lines)


def reproduce_finding(f, ctx):
    g = getattr(MODS[ctx["pid"]], "reproduce_finding", props_common.reproduce_finding)
    return g(f, ctx)


def replay_fails(pid, payload, impl_lines, model_lines):
    """for replay files written by a hook: does the (agreeing) observation still violate the property?"""
    g = getattr(MODS[pid], "replay_fails", None)
    return bool(g(payload, impl_lines, model_lines)) if g else False


def property_fails(pid):
    """optional: property_fails(impl_lines, model_lines) -> bool, for streams that carry an implementation-detail trace (calls made
    to an external library) next to the property's observable: True when the observable itself differs"""
    return getattr(MODS[pid], "property_fails", None)


def hook(pid, name):
    return getattr(MODS[pid], name)
