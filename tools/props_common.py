"""Shared pieces of the per-property configuration."""
import os

TRUSTED_COMMON = [
    "Lean 4.33.0 kernel; axioms allowed: propext, Classical.choice, Quot.sound (audited with #print axioms on every run)",
    "hand transcription of the C++ into lean/MultiModel, tied to /repo by the differential run (harness built from /repo's working tree each run)",
    "C++ ptrdiff_t arithmetic = Lean Int arithmetic with Int.tdiv/Int.tmod (overflow outside every property's quantifier)",
    "g++ 12 / libstdc++ as the executor of the real templates; the harness' own generator and canonical printer",
]

GEN_LAYOUT_TRUST = [
    "tools/gen_layout.py (translator: tokenizer + recursive-descent parser + symbolic evaluator over the closed vocabulary of the view-algebra member functions of index_range.hpp, layout.hpp and array_ref.hpp; regenerates lean/MultiModel/Gen/LayoutGen.lean from the current headers on every run; MultiProofs/GenTie.lean proves each regenerated function equal to the hand model, so for these functions the hand transcription is CHECKED against the source text, not only sampled)",
]

GEN_ITERS_TRUST = [
    "tools/gen_iters.py (translator, same tokenizer/parser as gen_layout.py: regenerates lean/MultiModel/Gen/IterGen.lean — extensions_t from_linear/to_linear/next_canonical/prev_canonical, array_iterator (D>1, D=1) and elements_iterator_t/elements_range_t operators — from the current headers on every run; MultiProofs/GenTieIter.lean proves each regenerated function equal to the hand model MultiModel/Iter.lean)",
]

GEN_STORE_TRUST = [
    "tools/gen_store.py (translator, same tokenizer/parser as gen_layout.py: regenerates lean/MultiModel/Gen/StoreGen.lean — elements_range_t assignment/swap/==/!=, every subarray::operator= taking a view, subarray::swap, the comparison operators of const_subarray for D>1 and D=1 including the bodies of lexicographical_compare — from the current array_ref.hpp on every run; MultiProofs/GenTieStore.lean proves each regenerated function equal to the hand model MultiModel/Store.lean; the glue definition lexRowsOf (how begin()/end() feed adl_lexicographical_compare) is part of the translator's prelude)",
]

GEN_CASTS_TRUST = [
    "tools/gen_casts.py (translator over gen_layout.py's evaluator: regenerates lean/MultiModel/Gen/CastGen.lean — member_cast and reinterpret_array_cast<U>()/(n) of const_subarray D>1, of subarray, and of the D=1 specialisation — from the current array_ref.hpp on every run; every pointer cast of base_ keeps the byte address, &(base_->*member) adds offsetof; MultiProofs/GenTieCast.lean proves each equal to MultiModel/Cast.lean; layout_t::scale itself is tied by GenTie.L_scale_tie)",
]

VIEW_RULE = ("programs = root extents (D 1..4, sizes 0..6, num_elements <= 240) + 0..7 in-domain view operations drawn from the real view's "
             "current shape + queries; distinct = different program text; non-trivial = at least one operation and a queried view with >= 2 elements")


def views_harness(modes, quick, thorough, name="views", flags=None, src="views.cpp", modes_thorough=None):
    h = {"name": name, "src": src, "flags": flags or ["-O1", "-g"], "modes": modes, "programs": {"quick": quick, "thorough": thorough}}
    if modes_thorough:
        h["modes_thorough"] = modes_thorough  # e.g. + "exhaustive": every root with D<=3, sizes 0..3, every in-domain op sequence of length <= 2
    return h


def nontrivial(prog_lines, answer_lines):
    """default rule: at least one operation line (v/x/o ...) and some queried answer reporting >= 2 elements"""
    has_op = any(l[:2] in ("v ", "x ", "o ") for l in prog_lines)
    big = False
    for l in answer_lines:
        w = l.split()
        if len(w) >= 2 and w[0] in ("addrs", "elems", "paths", "iter", "mem", "vals") and w[1].lstrip("-").isdigit() and int(w[1]) >= 2:
            big = True
    return has_op and big


def finding_key(pid, program, impl_lines, model_lines):
    """class of a disagreement, matched against known_findings.json: set of operations used + kind of the first differing answer"""
    ops = [l.split()[3] for l in program if l.startswith("v ") and len(l.split()) > 3]
    ops += [l.split()[1] for l in program if l[:2] in ("x ", "o ") and len(l.split()) > 1]
    kind = "?"
    for a, b in zip(impl_lines, model_lines):
        if a != b:
            kind = (a.split() or ["?"])[0]
            break
    return f"{pid}:{'+'.join(sorted(set(ops)))}:{kind}"


def reproduce_finding(f, ctx):
    """re-run the witness of an open finding against the real code; True if it still fails.
    witness kinds: {"kind": "program", "harness": src, "mode": m, "program": [lines]}  (impl/model streams differ or impl crashes)
                   {"kind": "cpp", "source": "...", "flags": [...], "libs": [...]}      (program exits non-zero / is killed by a signal)"""
    w = f.get("witness", {})
    if w.get("kind") == "program":
        h = [x for x in ctx["cfg"]["harnesses"] if x["src"] == w["harness"]][0]
        exe, _ = ctx["build_harness"](ctx["pid"], h)
        if exe is None:
            return True
        il, ml, crashed, _ = ctx["replay_program"](exe, w.get("mode", "zero"), w["program"], ctx["build"], "finding", h.get("driver", "mmdrv"))
        return il != ml or crashed
    if w.get("kind") == "cpp":
        os.makedirs(ctx["build"], exist_ok=True)
        src = os.path.join(ctx["build"], "finding_%s.cpp" % abs(hash(f.get("key", ""))))
        open(src, "w").write(w["source"])
        exe = src[:-4] + ".x"
        rc, out = ctx["sh"](["g++", "-std=c++17", "-w"] + w.get("flags", ["-O1"]) + [f"-I{ctx['repo']}/include", src, "-o", exe] + w.get("libs", []), timeout=600)
        if rc != 0:
            return False
        rc, out = ctx["sh"]([exe], timeout=120)
        return rc != 0
    return True
