#!/usr/bin/env python3
"""Translator: the stride arithmetic of boost/multi  ->  lean/MultiModel/Gen/LayoutGen.lean

Reads, from the CURRENT source under $VERIF_REPO (default /repo), the bodies of the member functions that make up the
view algebra —

    detail/index_range.hpp   range<>: is_empty, size, contains, front, back, operator==;  extension_t: intersection
    detail/layout.hpp        layout_t<D>: constructor from extensions (mem-initialisers), reindex, num_elements, is_empty,
                             size, extension, base_size, drop, slice, take, halve, scale, transpose, reverse, rotate,
                             unrotate;   layout_t<0>: constructor, num_elements, base_size, halve, reverse
    array_ref.hpp            const_subarray<T, D>  (D > 1 generic class)  and  const_subarray<T, 1>  (specialisation):
                             at_aux_, operator[], reindexed, taked_aux_, dropped_aux_, sliced_aux_, strided_aux_,
                             range, blocked, halved_aux_, partitioned_aux_, chunked_aux_, flatted, is_flattable,
                             broadcasted, diagonal_aux_, reversed_aux_, transposed_aux_, rotated_aux_, unrotated_aux_,
                             begin_aux_, end_aux_;   array_iterator: ++ -- advance_ operator- operator<

with a small tokenizer + recursive-descent parser + symbolic evaluator over the closed vocabulary those functions use,
and emits one NON-RECURSIVE Lean definition per function (namespace Multi.Gen): the function body as the code has it,
with `this->layout()` an opaque `Layout` accessed through `hd`/`tl`, C++ `/` `%` as `Int.tdiv` `Int.tmod`, every call to
ANOTHER library function replaced by the hand-written model function of the same role (`Layout.rotate`, `View.sliced`,
`Dim.size` ...), and the assertions of the body as a separate Bool-valued definition `<name>_asserts`.

`MultiProofs/GenTie.lean` then proves, for every generated definition, that it EQUALS the hand-written model function on
the layouts the C++ type admits (for the recursive ones — rotate, unrotate, reverse, num_elements, base_size, scale,
reindex — this says that the hand model satisfies the code's own recursion equation, which determines it uniquely by
induction on D).  A change of the source therefore changes the Lean text and the tie theorem for that function no longer
checks: the proof obligation breaks without any sampling.

Anything outside the vocabulary / grammar is an error: the script prints the reason and exits 2 (a broken obligation).
"""
import os, re, sys, json

REPO = os.environ.get("VERIF_REPO", "/repo")
HERE = os.path.dirname(os.path.dirname(os.path.abspath(__file__)))
INC = os.path.join(REPO, "include/boost/multi")
OUT = os.path.join(HERE, "lean/MultiModel/Gen/LayoutGen.lean")
OUTJ = os.path.join(HERE, "lean/MultiModel/Gen/LayoutGen.functions.json")


class TranslateError(Exception):
    pass


# ------------------------------------------------------------------------------------------------ source preparation
def strip_comments(src):
    """blank out comments, string contents are kept; preprocessor lines are blanked; line structure is preserved"""
    out, i, n = [], 0, len(src)
    while i < n:
        c = src[i]
        if src.startswith("//", i):
            j = src.find("\n", i)
            i = n if j < 0 else j
        elif src.startswith("/*", i):
            j = src.find("*/", i + 2)
            j = n - 2 if j < 0 else j
            out.append("".join(ch if ch == "\n" else " " for ch in src[i:j + 2]))
            i = j + 2
        elif c == '"':
            j = i + 1
            while j < n and src[j] != '"':
                j += 2 if src[j] == "\\" else 1
            out.append(src[i:j + 1])
            i = j + 1
        elif c == "'" and i + 2 < n and (src[i + 2] == "'" or (src[i + 1] == "\\" and i + 3 < n and src[i + 3] == "'")):
            j = src.find("'", i + 2 if src[i + 1] != "\\" else i + 3)
            out.append(src[i:j + 1])
            i = j + 1
        else:
            out.append(c)
            i += 1
    txt = "".join(out)
    return re.sub(r"(?m)^[ \t]*#[^\n]*$", "", txt)


def match_brace(src, i, op="{", cl="}"):
    assert src[i] == op, (src[i - 20:i + 20])
    depth = 0
    while i < len(src):
        if src[i] == op:
            depth += 1
        elif src[i] == cl:
            depth -= 1
            if depth == 0:
                return i
        i += 1
    raise TranslateError("unbalanced braces")


def line_of(src, pos):
    return src.count("\n", 0, pos) + 1


def class_region(src, header_re):
    m = re.search(header_re, src)
    if not m:
        raise TranslateError(f"class header not found: {header_re}")
    i = src.find("{", m.end() - 1)
    j = match_brace(src, i)
    return i, j


def header_tail(src, k):
    """after the parameter list: cv/ref qualifiers, optional trailing return type, then '{' | ';' | '=' | ':' (constructor)
    returns (quals, return type text, terminator, position after the terminator)"""
    m = re.compile(r"\s*((?:const|noexcept|&&|&|\s)*)", re.S).match(src, k)
    quals = " ".join(m.group(1).split())
    k = m.end()
    ret = ""
    if src.startswith("->", k):
        q = k + 2
        angle = 0
        while q < len(src) and not (src[q] in "{;=" and angle == 0):
            if src[q] == "<":
                angle += 1
            elif src[q] == ">":
                angle -= 1
            q += 1
        ret = src[k + 2:q].strip()
        k = q
    if k < len(src) and src[k] in "{;=":
        return quals, ret, src[k], k + 1
    if k < len(src) and src[k] == ":" and not src.startswith("::", k) and not ret:
        return quals, ret, ":", k + 1
    return None


def member_functions(src, lo, hi, name):
    """all definitions `name(params) quals [-> type] { body }` (or constructors with mem-initialisers) at member depth of
    the class body src[lo:hi]; returns list of dicts(params, quals, body, init, line)"""
    res = []
    pat = re.compile(r"(?<![A-Za-z0-9_:.>~])" + re.escape(name) + r"\s*\(")
    depth = 0
    # positions at member depth: precompute depth per position cheaply
    depths = []
    d = 0
    for k in range(lo, hi + 1):
        ch = src[k]
        if ch == "{":
            d += 1
        depths.append(d)
        if ch == "}":
            d -= 1
    for m in pat.finditer(src, lo, hi):
        if depths[m.start() - lo] != 1:
            continue
        p0 = m.end() - 1
        p1 = match_brace(src, p0, "(", ")")
        params = src[p0 + 1:p1]
        k = p1 + 1
        # qualifiers / trailing return type up to '{', ';', '=' or ':' (constructor initialisers)
        tail = header_tail(src, k)
        if tail is None:
            continue
        quals, ret, term, tend = tail
        init = None
        if term == ":":
            # constructor: initialiser list up to the '{' of the (empty) body at paren/brace depth 0
            q = tend
            dd = 0
            start = q
            while q < hi:
                ch = src[q]
                if ch in "({":
                    if ch == "{" and dd == 0 and src[start:q].strip() and re.search(r"[)}]\s*$", src[start:q]):
                        break
                    dd += 1
                elif ch in ")}":
                    dd -= 1
                q += 1
            init = src[start:q]
            b0 = q
        elif term == "{":
            b0 = tend - 1
        else:
            continue   # declaration only, `= delete`, `= default`
        b1 = match_brace(src, b0)
        res.append(dict(params=params, quals=quals, body=src[b0 + 1:b1], init=init, line=line_of(src, m.start()), end_line=line_of(src, b1), ret=ret))
    return res


# ------------------------------------------------------------------------------------------------ lexer / parser
TOKEN = re.compile(r"""
    (?P<ws>\s+)
  | (?P<str>"(?:[^"\\]|\\.)*")
  | (?P<chr>'(?:[^'\\]|\\.)')
  | (?P<num>\d+[uUlL]*)
  | (?P<id>[A-Za-z_][A-Za-z_0-9]*)
  | (?P<op>\.\.\.|->|::|==|!=|<=|>=|&&|\|\||\+\+|--|\+=|-=|\*=|/=|%=|[-+*/%<>=!~&|^?:;,.(){}\[\]])
""", re.X)


def lex(text, line0=1):
    toks, pos, line = [], 0, line0
    while pos < len(text):
        m = TOKEN.match(text, pos)
        if not m:
            raise TranslateError(f"line {line}: cannot tokenize {text[pos:pos+30]!r}")
        if m.lastgroup != "ws":
            toks.append((m.lastgroup, m.group(0), line))
        line += m.group(0).count("\n")
        pos = m.end()
    return toks


TEMPLATE_IDS = {"layout_t", "const_subarray", "subarray", "get", "static_cast", "extensions_t", "range", "array_iterator", "basic_const_array"}
MEMBER_TEMPLATES = {"reinterpret_array_cast", "member_cast", "static_array_cast", "reinterpret_array_cast_aux_"}
TYPE_WORDS = {"typename", "const", "constexpr", "auto", "static"}


class P:
    def __init__(self, toks):
        self.t, self.i = toks, 0

    def peek(self, k=0):
        return self.t[self.i + k] if self.i + k < len(self.t) else ("eof", "", -1)

    def val(self, k=0):
        return self.peek(k)[1]

    def line(self):
        return self.peek()[2]

    def eat(self, v=None):
        tok = self.peek()
        if v is not None and tok[1] != v:
            raise TranslateError(f"line {tok[2]}: expected {v!r}, found {tok[1]!r}")
        self.i += 1
        return tok

    def at(self, v):
        return self.val() == v

    # ---- statements
    def block(self):
        self.eat("{")
        out = []
        while not self.at("}"):
            out.append(self.stmt())
        self.eat("}")
        return ("block", out)

    def skip_to_semicolon(self):
        depth = 0
        while True:
            k, v, _ = self.eat()
            if k == "eof":
                raise TranslateError("unexpected end of function body")
            if v in "({[":
                depth += 1
            elif v in ")}]":
                depth -= 1
            elif v == ";" and depth == 0:
                return

    def looks_like_decl(self):
        """[typename] Type [const] name ( '=' | '{' | '(' ) ...   with Type one of auto / *layout_t* / index / size_type ..."""
        j = self.i
        v = self.t[j][1] if j < len(self.t) else ""
        if v in ("auto", "typename", "bool", "int", "index", "difference_type", "size_type"):
            return True
        # qualified name ending in layout_t[<...>] followed by [const] identifier
        k = j
        words = []
        while k < len(self.t) and (self.t[k][0] == "id" or self.t[k][1] == "::"):
            words.append(self.t[k][1])
            k += 1
        if words and words[-1] == "layout_t" or (len(words) >= 2 and words[-2] == "layout_t") or (len(words) >= 3 and words[-3] == "layout_t"):
            return "layout_t" in words and (self.t[k][1] in ("<",) or len(words) >= 2 and words[-1] != "layout_t")
        return False

    def decl(self):
        ln = self.line()
        # type part: everything up to the declared name = the identifier right before the first '=', '{', '(' or ';' at angle depth 0
        ty = []
        angle = 0
        while True:
            k, v, _ = self.peek()
            if k == "eof":
                raise TranslateError(f"line {ln}: bad declaration")
            if v == "<":
                angle += 1
            elif v == ">":
                angle -= 1
            elif angle == 0 and v in ("=", "{", "(", ";") and ty and ty[-1][0] == "id" and ty[-1][1] not in TYPE_WORDS:
                break
            ty.append(self.eat())
        name = ty[-1][1]
        tytext = "".join(x[1] for x in ty[:-1])
        v = self.val()
        if v == "=":
            self.eat()
            e = self.expr()
            self.eat(";")
            return ("decl", name, tytext, "copy", [e], ln)
        if v == ";":
            self.eat()
            return ("decl", name, tytext, "default", [], ln)
        close = "}" if v == "{" else ")"
        self.eat()
        args = []
        if not self.at(close):
            args.append(self.expr())
            while self.at(","):
                self.eat()
                args.append(self.expr())
        self.eat(close)
        self.eat(";")
        return ("decl", name, tytext, "init", args, ln)

    def stmt(self):
        v = self.val()
        ln = self.line()
        if v == "{":
            return self.block()
        if v == ";":
            self.eat()
            return ("block", [])
        if v == "if":
            self.eat()
            cx = False
            if self.at("constexpr"):
                self.eat()
                cx = True
            self.eat("(")
            c = self.expr()
            self.eat(")")
            th = self.stmt()
            el = None
            if self.at("else"):
                self.eat()
                el = self.stmt()
            return ("if", c, th, el, cx, ln)
        if v in ("assert", "BOOST_MULTI_ASSERT", "BOOST_MULTI_ACCESS_ASSERT"):
            self.eat()
            self.eat("(")
            start = self.i
            c = None
            err = None
            try:
                c = self.expr()
                self.eat(")")
            except TranslateError as e:
                err = str(e)
                self.i = start
                depth = 1
                while depth:
                    t = self.eat()[1]
                    depth += (t == "(") - (t == ")")
            text = "".join(x[1] for x in self.t[start:self.i - 1])
            self.eat(";")
            return ("assert", c, text, err, ln)
        if v == "return":
            self.eat()
            if self.at(";"):
                self.eat()
                return ("return", None, ln)
            e = self.expr()
            self.eat(";")
            return ("return", e, ln)
        if v in ("using", "struct", "typedef", "static_assert"):
            self.skip_to_semicolon()
            return ("block", [])
        if self.looks_like_decl():
            return self.decl()
        e = self.expr()
        if self.val() in ("=", "+=", "-=", "*=", "/=", "%="):
            op = self.eat()[1]
            r = self.expr()
            self.eat(";")
            return ("assign", op, e, r, ln)
        self.eat(";")
        return ("expr", e, ln)

    # ---- expressions
    def expr(self):
        c = self.lor()
        if self.at("?"):
            self.eat()
            a = self.expr()
            self.eat(":")
            b = self.expr()
            return ("?:", c, a, b)
        return c

    def lor(self):
        e = self.land()
        while self.at("||"):
            self.eat()
            e = ("||", e, self.land())
        return e

    def land(self):
        e = self.eq()
        while self.at("&&"):
            self.eat()
            e = ("&&", e, self.eq())
        return e

    def eq(self):
        e = self.rel()
        while self.val() in ("==", "!="):
            op = self.eat()[1]
            e = (op, e, self.rel())
        return e

    def rel(self):
        e = self.add()
        while self.val() in (">=", "<=", "<", ">"):
            op = self.eat()[1]
            e = (op, e, self.add())
        return e

    def add(self):
        e = self.mul()
        while self.val() in ("+", "-"):
            op = self.eat()[1]
            e = (op, e, self.mul())
        return e

    def mul(self):
        e = self.unary()
        while self.val() in ("*", "/", "%"):
            op = self.eat()[1]
            e = (op, e, self.unary())
        return e

    def unary(self):
        v = self.val()
        if v in ("!", "-", "+", "*", "&"):
            self.eat()
            return ("un" + v, self.unary())
        if v in ("++", "--"):
            self.eat()
            return ("pre" + v, self.unary())
        return self.postfix()

    def template_args(self):
        self.eat("<")
        depth, txt = 1, []
        while depth:
            k, v, _ = self.eat()
            if k == "eof":
                raise TranslateError("unbalanced <>")
            if v == "<":
                depth += 1
            elif v == ">":
                depth -= 1
                if depth == 0:
                    break
            txt.append(v)
        return "".join(txt)

    def args(self, close):
        out = []
        if not self.at(close):
            out.append(self.expr())
            while self.at(","):
                self.eat()
                out.append(self.expr())
        self.eat(close)
        return out

    def primary(self):
        k, v, ln = self.peek()
        if v == "(":
            self.eat()
            e = self.expr()
            self.eat(")")
            return ("paren", e)
        if v == "{":
            self.eat()
            return ("braces", self.args("}"))
        if k == "num":
            self.eat()
            return ("num", int(re.sub(r"[uUlL]", "", v)))
        if k == "str":
            self.eat()
            return ("str", v)
        if v == "::" and self.peek(1)[0] == "id":
            self.eat()
            k, v, ln = self.peek()
        if k == "id":
            if v == "typename":
                self.eat()
                k, v, ln = self.peek()
            self.eat()
            name = v
            if name == "operator" and self.val() in ("(", "[") and self.val(1) in (")", "]"):
                name += self.eat()[1] + self.eat()[1]
            targs = None
            while True:
                if self.at("::"):
                    self.eat()
                    if self.at("template"):
                        self.eat()
                    nxt = self.eat()[1]
                    if nxt == "operator" and self.val() in ("(", "[") and self.val(1) in (")", "]"):
                        nxt += self.eat()[1] + self.eat()[1]
                    name += "::" + nxt
                elif self.at("<") and name.split("::")[-1] in TEMPLATE_IDS:
                    targs = self.template_args()
                else:
                    break
            e = ("id", name, targs)
            if self.at("{") and name.split("::")[-1] not in ("this",):
                # Type{args}: brace construction  (only after a type-like name)
                if name.split("::")[-1] in CTOR_NAMES:
                    self.eat()
                    return ("construct", name, targs, self.args("}"))
            return e
        raise TranslateError(f"line {ln}: unexpected token {v!r} in expression")

    def postfix(self):
        e = self.primary()
        while True:
            v = self.val()
            if v == "(":
                self.eat()
                e = ("call", e, self.args(")"))
            elif v in (".", "->"):
                self.eat()
                if self.at("template"):
                    self.eat()
                name = self.eat()[1]
                if self.at("<") and name in MEMBER_TEMPLATES:
                    self.template_args()
                e = ("mem", e, name)
            elif v == "[":
                self.eat()
                idx = self.expr()
                self.eat("]")
                e = ("index", e, idx)
            elif v == "...":
                self.eat()
                e = ("pack", e)
            else:
                return e


VIEW_CTORS = {"const_subarray", "subarray", "const_reference", "reference", "basic_const_array"}
LAYOUT_CTORS = {"layout_t", "sub_type", "layout_type"}
CTOR_NAMES = VIEW_CTORS | LAYOUT_CTORS | {"index_extension", "extension_t", "iterator", "range", "array_iterator"}


# ------------------------------------------------------------------------------------------------ symbolic values
# ("int", lean) ("bool", lean) ("ext", lean) ("ilist", lean) ("lay", L) ("view", baseLean, L) ("iter", baseLean, L, strideLean)
# ("braces", [values]) ("str",) ("void",)
# L = ("var", lean)  |  ("cons", strideLean, offsetLean, nelemsLean, L)

def paren(s):
    s = s.strip()
    if re.fullmatch(r"[A-Za-z_][A-Za-z_0-9.']*|-?\d+", s):
        return s
    if s.startswith("(") and match_paren_whole(s):
        return s
    return "(" + s + ")"


def match_paren_whole(s):
    d = 0
    for k, ch in enumerate(s):
        if ch == "(":
            d += 1
        elif ch == ")":
            d -= 1
            if d == 0 and k != len(s) - 1:
                return False
    return True


def canon2(a, b):
    """canonical operand order of a commutative operator on integers (`*`, `+`, `==`, `!=`): terms of the receiver first,
    terms of the other operand (`other`, `src`) next, numerals last, then lexicographic — so that `n*stride`, `stride*n`,
    `0 == x`, `x == 0` produce ONE Lean text (a harmless reordering of the source does not change the generated file)"""
    def key(x):
        t = x.strip()
        rank = 2 if re.fullmatch(r"\(?-?\d+\)?", t) else (1 if re.search(r"\b(other|src)\b", t) else 0)
        return (rank, t)
    return (a, b) if key(a) <= key(b) else (b, a)


def L_render(L):
    if L[0] == "var":
        return L[1]
    _, s, o, n, sub = L
    m = re.fullmatch(r"\(hd (.*)\)\.stride", s)
    if m and o == f"(hd {m.group(1)}).offset" and n == f"(hd {m.group(1)}).nelems":
        return f"(hd {m.group(1)} :: {L_render(sub)})"
    return f"(⟨{s}, {o}, {n}⟩ :: {L_render(sub)})"


def L_field(L, f):
    if L[0] == "cons":
        return {"stride": L[1], "offset": L[2], "nelems": L[3]}[f]
    return f"(hd {paren(L[1])}).{f}"


def L_head(L):
    """Lean term of type Dim for the first level"""
    if L[0] == "cons":
        m = re.fullmatch(r"\(hd (.*)\)\.stride", L[1])
        if m and L[2] == f"(hd {m.group(1)}).offset" and L[3] == f"(hd {m.group(1)}).nelems":
            return f"(hd {m.group(1)})"
        return f"(⟨{L[1]}, {L[2]}, {L[3]}⟩ : Dim)"
    return f"(hd {paren(L[1])})"


def L_sub(L):
    if L[0] == "cons":
        return L[4]
    return ("var", f"(tl {paren(L[1])})")


def L_cons_form(L):
    if L[0] == "cons":
        return L
    return ("cons", L_field(L, "stride"), L_field(L, "offset"), L_field(L, "nelems"), L_sub(L))


def L_set(L, path, f, val):
    """functional update of field f (stride/offset/nelems/whole) at depth len(path) ('sub' steps)"""
    if not path:
        if f == "whole":
            return val
        c = L_cons_form(L)
        d = {"stride": c[1], "offset": c[2], "nelems": c[3]}
        d[f] = val
        return ("cons", d["stride"], d["offset"], d["nelems"], c[4])
    c = L_cons_form(L)
    return ("cons", c[1], c[2], c[3], L_set(c[4], path[1:], f, val))


def L_get(L, path):
    for _ in path:
        L = L_sub(L)
    return L


# hand-model functions that stand for calls to other library functions
LAYOUT_MUTATORS = {"rotate": "Layout.rotate", "unrotate": "Layout.unrotate", "transpose": "Layout.transpose", "reverse": "Layout.reverse"}
LAYOUT_CONST = {"take": "Layout.take", "drop": "Layout.drop", "slice": "Layout.slice", "halve": "Layout.halve", "scale": "Layout.scale"}
VIEW_METHODS = {"sliced": "View.sliced", "sliced_aux_": "View.sliced", "rotated": "View.rotated", "unrotated": "View.unrotated",
                "strided": "View.strided", "strided_aux_": "View.strided", "taked": "View.taked", "taked_aux_": "View.taked",
                "dropped": "View.dropped", "dropped_aux_": "View.dropped", "chunked": "View.chunked", "chunked_aux_": "View.chunked",
                "partitioned": "View.partitioned", "partitioned_aux_": "View.partitioned", "transposed": "View.transposed",
                "reversed": "View.reversed", "blocked": "View.blocked", "halved": "View.halved", "diagonal_aux_": "View.diagonal",
                "reversed_aux_": "View.reversed", "transposed_aux_": "View.transposed", "rotated_aux_": "View.rotated",
                "unrotated_aux_": "View.unrotated", "halved_aux_": "View.halved", "at_aux_": "View.index"}


class Interp:
    def __init__(self, kind, recv, params, fname):
        self.kind = kind          # "layout" | "layout0" | "view" | "range" | "iter" | "free"
        self.recv = recv          # lean name of the receiver variable
        self.env = {}
        self.asserts = []
        self.untranslated = []
        self.fname = fname
        self.uses_junk = False
        self.lets = []
        self.home = None      # (source text, lo, hi) of the class the function lives in: private helpers are inlined from there
        self.inline_depth = 0
        if kind in ("layout", "layout0"):
            self.this = ("var", recv)
        for n, v in params.items():
            self.env[n] = v

    # ---------------------------------------------------------------- receivers
    def this_layout(self):
        if self.kind in ("layout", "layout0"):
            return self.this
        if self.kind == "view":
            return ("var", f"{self.recv}.lay")
        raise TranslateError("no layout receiver here")

    def D(self):
        if self.kind == "layout":
            return f"({self.recv}.length : Int)"
        if self.kind == "view":
            return f"({self.recv}.lay.length : Int)"
        raise TranslateError("D is not available here")

    # ---------------------------------------------------------------- lvalues: (root, path, field)
    def lvalue(self, e):
        e = self.strip(e)
        if e[0] == "id":
            n = e[1]
            if self.kind in ("layout", "layout0") and n in ("stride_", "offset_", "nelems_"):
                return ("*this", [], n[:-1])
            if self.kind in ("layout", "layout0") and n == "sub_":
                return ("*this", ["sub"], "whole")
            if n in self.env and self.env[n][0] == "lay":
                return (n, [], "whole")
            if n in self.env and self.env[n][0] == "int":
                return (n, None, "int")
        if e[0] == "un*" and self.strip(e[1]) == ("id", "this", None) and self.kind in ("layout", "layout0"):
            return ("*this", [], "whole")
        if e[0] == "mem":
            base, name = e[1], e[2]
            if name in ("stride_", "offset_", "nelems_"):
                r = self.lvalue(base)
                if r[2] == "whole":
                    return (r[0], r[1], name[:-1])
            if name == "sub_":
                r = self.lvalue(base)
                if r[2] == "whole":
                    return (r[0], r[1] + ["sub"], "whole")
        if e[0] == "call" and e[1][0] == "mem" and not e[2]:
            base, name = e[1][1], e[1][2]
            if name in ("stride", "offset", "nelems", "sub"):
                r = self.lvalue(base)
                if r[2] == "whole":
                    return (r[0], r[1] + (["sub"] if name == "sub" else []), "whole" if name == "sub" else name)
        if e[0] == "call" and e[1][0] == "mem" and e[1][2] in LAYOUT_MUTATORS | {"reindex": 1}.keys():
            # chained mutators return *this
            v = self.eval(e)
            if v[0] == "lref":
                return v[1]
        if e[0] == "call" and e[1][0] == "id" and e[1][1] in LAYOUT_MUTATORS | {"reindex": 1}.keys() and self.kind == "layout":
            v = self.eval(e)
            if v[0] == "lref":
                return v[1]
        raise TranslateError(f"{self.fname}: not an lvalue the translator knows: {e!r}")

    def get_root(self, root):
        if root == "*this":
            return self.this
        return self.env[root][1]

    def set_root(self, root, L):
        if root == "*this":
            self.this = L
        else:
            self.env[root] = ("lay", L)

    def read_lv(self, lv):
        root, path, f = lv
        if f == "int":
            return self.env[root]
        L = L_get(self.get_root(root), path)
        if f == "whole":
            return ("lay", L)
        return ("int", L_field(L, f))

    def write_lv(self, lv, val):
        root, path, f = lv
        if f == "int":
            self.env[root] = val
            return
        if f == "whole":
            if val[0] != "lay":
                raise TranslateError(f"{self.fname}: assigning a non-layout to a layout")
            self.set_root(root, L_set(self.get_root(root), path, "whole", val[1]))
        else:
            self.set_root(root, L_set(self.get_root(root), path, f, self.as_int(val)))

    # ---------------------------------------------------------------- helpers
    def strip(self, e):
        while e[0] == "paren":
            e = e[1]
        if e[0] == "call" and e[1][0] == "id" and e[1][1].startswith("static_cast") and len(e[2]) == 1:
            return self.strip(e[2][0])
        if e[0] == "call" and e[1][0] == "id" and e[1][1] in ("std::move", "std::forward") and len(e[2]) == 1:
            return self.strip(e[2][0])
        return e

    def as_int(self, v):
        if v[0] == "int":
            return v[1]
        if v[0] == "bool":
            return f"(if {v[1]} then 1 else 0)"
        raise TranslateError(f"{self.fname}: expected an integer, got {v[0]}")

    def as_bool(self, v):
        if v[0] == "bool":
            return v[1]
        if v[0] == "int":
            return f"({paren(v[1])} != 0)"
        if v[0] == "str":
            return "true"
        raise TranslateError(f"{self.fname}: expected a condition, got {v[0]}")

    def as_arg(self, v):
        """call-syntax argument"""
        if v[0] == "int":
            return f"Arg.idx {paren(v[1])}"
        if v[0] == "braces" and len(v[1]) == 2:
            return f"Arg.rng {paren(self.as_int(v[1][0]))} {paren(self.as_int(v[1][1]))}"
        if v[0] == "ext":
            return f"Arg.rng {paren(v[1])}.first {paren(v[1])}.last"
        raise TranslateError(f"{self.fname}: call-syntax argument {v!r}")

    def mk_view(self, args):
        a = [self.eval(x) for x in args]
        if len(a) == 2 and a[0][0] == "lay" and a[1][0] == "int":
            return ("view", a[1][1], a[0][1])
        if len(a) == 1 and a[0][0] == "view":
            return a[0]
        raise TranslateError(f"{self.fname}: view constructor with {[x[0] for x in a]}")

    def mk_layout(self, args, targs):
        a = [self.eval(x) for x in args]
        if len(a) == 1 and a[0][0] == "lay":
            return ("lay", a[0][1])
        if len(a) == 4 and a[0][0] == "lay":
            return ("lay", ("cons", self.as_int(a[1]), self.as_int(a[2]), self.as_int(a[3]), a[0][1]))
        if len(a) == 3 and a[0][0] == "lay":
            self.uses_junk = True   # layout_t(sub, stride, offset): nelems_ is left uninitialised (layout.hpp)
            return ("lay", ("cons", self.as_int(a[1]), self.as_int(a[2]), "junk", a[0][1]))
        if len(a) == 0 and targs is not None and targs.replace(" ", "").startswith("0"):
            return ("lay", ("var", "([] : Layout)"))
        raise TranslateError(f"{self.fname}: layout constructor with {[x[0] for x in a]}")

    def layout_method(self, L, name, args, lv=None):
        """method `name` called on the layout value L (lv = its lvalue when it has one)"""
        a = [self.eval(x) for x in args]
        if name in ("stride", "offset", "nelems") and not a:
            return ("int", L_field(L, name))
        if name == "sub" and not a:
            return ("lay", L_sub(L))
        if name == "size" and not a:
            return ("int", f"Dim.size {L_head(L)}")
        if name == "extension" and not a:
            return ("ext", f"Dim.ext {L_head(L)}")
        if name in ("is_empty", "empty") and not a:
            return ("bool", f"Layout.isEmpty {paren(L_render(L))}")
        if name == "num_elements" and not a:
            return ("int", f"Layout.numElements {paren(L_render(L))}")
        if name == "base_size" and not a:
            return ("int", f"Layout.baseSize {paren(L_render(L))}")
        if name == "sizes" and not a:
            return ("ilist", f"Layout.sizes {paren(L_render(L))}")
        if name in LAYOUT_CONST:
            return ("lay", ("var", f"({LAYOUT_CONST[name]} {paren(L_render(L))} " + " ".join(paren(self.as_int(x)) for x in a) + ")"))
        if name in LAYOUT_MUTATORS and not a:
            new = ("var", f"({LAYOUT_MUTATORS[name]} {paren(L_render(L))})")
            if lv is None:
                return ("lay", new)   # a temporary, mutated and returned by reference
            self.write_lv(lv, ("lay", new))
            return ("lref", lv)
        if name == "reindex":
            if lv is None:
                raise TranslateError(f"{self.fname}: mutating reindex() on a temporary")
            if len(a) == 1 and a[0][0] == "int":
                new = ("var", f"(Layout.reindex1 {paren(L_render(L))} {paren(a[0][1])})")
            elif len(a) == 1 and a[0][0] == "ilist":
                new = ("var", f"(Layout.reindex {paren(L_render(L))} {paren(a[0][1])})")
            elif len(a) == 2 and a[0][0] == "int" and a[1][0] == "ilist":
                new = ("var", f"(Layout.reindex {paren(L_render(L))} ({paren(a[0][1])} :: {paren(a[1][1])}))")
            else:
                raise TranslateError(f"{self.fname}: reindex with {[x[0] for x in a]}")
            self.write_lv(lv, ("lay", new))
            return ("lref", lv)
        if name == "operator()" and not a:
            return ("lay", L)
        raise TranslateError(f"{self.fname}: layout method {name}/{len(a)} is outside the vocabulary")

    def view_method(self, v, name, args):
        base, L = v[1], v[2]
        vr = f"(View.mk {paren(base)} {paren(L_render(L))})" if not (L[0] == "var" and L[1].endswith(".lay") and base == L[1][:-4] + ".base") else L[1][:-4]
        a = [self.eval(x) for x in args]
        if name == "layout" and not a:
            return ("lay", L)
        if name in ("base", "base_") and not a:
            return ("int", base)
        if name in ("stride", "offset", "nelems", "sub", "size", "extension", "is_empty", "num_elements", "sizes"):
            return self.layout_method(L, name, args)
        if name in ("reindexed",):
            if len(a) == 1 and a[0][0] == "int":
                return ("view", f"(View.reindexed1 {vr} {paren(a[0][1])}).base", ("var", f"(View.reindexed1 {vr} {paren(a[0][1])}).lay"))
            if len(a) == 1 and a[0][0] == "ilist":
                return ("view", f"(View.reindexed {vr} {paren(a[0][1])}).base", ("var", f"(View.reindexed {vr} {paren(a[0][1])}).lay"))
            raise TranslateError(f"{self.fname}: reindexed with {[x[0] for x in a]}")
        if name == "range" and len(a) == 1 and a[0][0] == "ext":
            t = f"(View.range {vr} {paren(a[0][1])}.first {paren(a[0][1])}.last)"
            return ("view", t + ".base", ("var", t + ".lay"))
        if name in ("operator[]",) and len(a) == 1:
            t = f"(View.index {vr} {paren(self.as_int(a[0]))})"
            return ("view", t + ".base", ("var", t + ".lay"))
        if name in ("operator()", "paren_aux_"):
            if not a:
                return v
            if a[-1][0] == "alist":
                t = f"(View.paren {vr} (" + "".join(self.as_arg(x) + " :: " for x in a[:-1]) + f"{a[-1][1]}))"
            else:
                t = f"(View.paren {vr} [" + ", ".join(self.as_arg(x) for x in a) + "])"
            return ("view", t + ".base", ("var", t + ".lay"))
        if name in VIEW_METHODS:
            t = f"({VIEW_METHODS[name]} {vr} " + " ".join(paren(self.as_int(x)) for x in a) + ")" if a else f"({VIEW_METHODS[name]} {vr})"
            return ("view", t + ".base", ("var", t + ".lay"))
        raise TranslateError(f"{self.fname}: view method {name}/{len(a)} is outside the vocabulary")

    def ext_method(self, x, name, args):
        a = [self.eval(z) for z in args]
        e = paren(x)
        if name in ("first", "front") and not a:
            return ("int", f"{e}.first")
        if name == "last" and not a:
            return ("int", f"{e}.last")
        if name == "back" and not a:
            return ("int", f"Ext.back {e}")
        if name == "size" and not a:
            return ("int", f"Ext.size {e}")
        if name in ("is_empty", "empty") and not a:
            return ("bool", f"Ext.isEmpty {e}")
        if name == "contains" and len(a) == 1:
            return ("bool", f"Ext.contains {e} {paren(self.as_int(a[0]))}")
        raise TranslateError(f"{self.fname}: range method {name}/{len(a)} is outside the vocabulary")

    # ---------------------------------------------------------------- expressions
    def eval(self, e):
        k = e[0]
        if k == "paren":
            return self.eval(e[1])
        if k == "num":
            return ("int", str(e[1]))
        if k == "str":
            return ("str",)
        if k == "braces":
            return ("braces", [self.eval(x) for x in e[1]])
        if k == "pack":
            v = self.eval(e[1])
            if v[0] not in ("ilist", "alist"):
                raise TranslateError(f"{self.fname}: pack expansion of a non-pack")
            return v
        if k == "id":
            n = e[1]
            if n in self.env:
                v = self.env[n]
                return v
            if n == "D":
                return ("int", self.D())
            if self.kind == "layout0" and n in ("offset_", "nelems_"):
                return ("int", n[:-1] + "0")
            if self.kind in ("layout", "layout0") and n in ("stride_", "offset_", "nelems_", "sub_"):
                return self.read_lv(self.lvalue(e))
            if self.kind == "range" and n in ("first_", "last_"):
                return ("int", f"{self.recv}.{n[:-1]}")
            if self.kind == "iter" and n == "stride_":
                return ("int", f"{self.recv}.stride")
            if n in ("types::base_", "base_") and self.kind == "view":
                return ("int", f"{self.recv}.base")
            raise TranslateError(f"{self.fname}: unknown identifier {n}")
        if k == "un*":
            inner = self.strip(e[1])
            if inner == ("id", "this", None):
                if self.kind in ("layout", "layout0"):
                    return ("lay", self.this)
                if self.kind == "view":
                    return ("view", f"{self.recv}.base", ("var", f"{self.recv}.lay"))
            v = self.eval(e[1])
            if v[0] == "int" and self.kind == "view":   # *(ptr): the element at that address = a 0-D view
                return ("view", v[1], ("var", "([] : Layout)"))
            raise TranslateError(f"{self.fname}: dereference of {v[0]}")
        if k == "un-":
            return ("int", f"(-{paren(self.as_int(self.eval(e[1])))})")
        if k == "un+":
            return self.eval(e[1])
        if k == "un!":
            return ("bool", f"(!{paren(self.as_bool(self.eval(e[1])))})")
        if k in ("+", "-", "*"):
            a, b = self.eval(e[1]), self.eval(e[2])
            x, y = paren(self.as_int(a)), paren(self.as_int(b))
            if k in ("+", "*"):
                x, y = canon2(x, y)
            return ("int", f"({x} {k} {y})")
        if k == "/":
            a, b = self.eval(e[1]), self.eval(e[2])
            return ("int", f"(Int.tdiv {paren(self.as_int(a))} {paren(self.as_int(b))})")
        if k == "%":
            a, b = self.eval(e[1]), self.eval(e[2])
            return ("int", f"(Int.tmod {paren(self.as_int(a))} {paren(self.as_int(b))})")
        if k in ("==", "!="):
            a, b = self.eval(e[1]), self.eval(e[2])
            if a[0] == "ext" and b[0] == "ext":
                x, y = canon2(paren(a[1]), paren(b[1]))
                t = f"(Ext.eqv {x} {y})"
                return ("bool", t if k == "==" else f"(!{t})")
            if a[0] == "lay" and b[0] == "lay":
                x, y = canon2(paren(L_render(a[1])), paren(L_render(b[1])))
                t = f"({x} == {y})"
                return ("bool", t if k == "==" else f"(!{t})")
            if a[0] == "bool" or b[0] == "bool":
                return ("bool", f"({paren(self.as_bool(a))} {k} {paren(self.as_bool(b))})")
            x, y = canon2(paren(self.as_int(a)), paren(self.as_int(b)))
            return ("bool", f"({x} {k} {y})")
        if k in ("<", "<=", ">", ">="):
            a, b = self.eval(e[1]), self.eval(e[2])
            if k in (">", ">="):      # canonical direction: a > b is b < a
                a, b, k = b, a, {">": "<", ">=": "<="}[k]
            op = {"<": "<", "<=": "≤"}[k]
            return ("bool", f"(decide ({paren(self.as_int(a))} {op} {paren(self.as_int(b))}))")
        if k in ("&&", "||"):
            a, b = self.eval(e[1]), self.eval(e[2])
            return ("bool", f"({paren(self.as_bool(a))} {k} {paren(self.as_bool(b))})")
        if k == "?:":
            c = self.as_bool(self.eval(e[1]))
            a, b = self.eval(e[2]), self.eval(e[3])
            return self.ite(c, a, b)
        if k == "construct":
            base = e[1].split("::")[-1]
            if base in VIEW_CTORS:
                return self.mk_view(e[3])
            if base in LAYOUT_CTORS:
                return self.mk_layout(e[3], e[2])
            if base in ("index_extension", "extension_t", "range"):
                a = [self.eval(x) for x in e[3]]
                if not a:
                    return ("ext", "(⟨0, 0⟩ : Ext)")
                if len(a) == 2:
                    return ("ext", f"(⟨{self.as_int(a[0])}, {self.as_int(a[1])}⟩ : Ext)")
            if base in ("iterator", "array_iterator"):
                return self.mk_iter(e[3])
            raise TranslateError(f"{self.fname}: construction of {e[1]} is outside the vocabulary")
        if k == "index":
            v = self.eval(e[1])
            if v[0] == "view":
                return self.view_method(v, "operator[]", [e[2]])
            raise TranslateError(f"{self.fname}: indexing of {v[0]}")
        if k == "mem":
            # data member access
            name = e[2]
            if name in ("stride_", "offset_", "nelems_", "sub_"):
                return self.read_lv(self.lvalue(e))
            if name == "base_":
                v = self.eval(e[1]) if self.strip(e[1]) != ("id", "this", None) else ("view", f"{self.recv}.base", None)
                if v[0] in ("view",):
                    return ("int", v[1])
                if v[0] == "ptr":
                    return ("int", v[1])
            if name in ("first_", "last_"):
                v = self.eval(e[1])
                if v[0] == "ext":
                    return ("int", f"{paren(v[1])}.{name[:-1]}")
            if name == "ptr_":
                v = self.eval(e[1]) if self.strip(e[1]) != ("id", "this", None) else ("iter", self.recv)
                if v[0] == "iter":
                    return ("ptr", f"{v[1]}.ptr")
            raise TranslateError(f"{self.fname}: member {name} is outside the vocabulary")
        if k == "call":
            return self.call(e)
        raise TranslateError(f"{self.fname}: expression form {k} is outside the vocabulary")

    def mk_iter(self, args):
        a = [self.eval(x) for x in args]
        if len(a) == 3 and a[0][0] == "int" and a[1][0] == "lay" and a[2][0] == "int":
            return ("iterv", a[0][1], a[1][1], a[2][1])
        raise TranslateError(f"{self.fname}: iterator constructor with {[x[0] for x in a]}")

    def ite(self, c, a, b):
        if a[0] == "int" or b[0] == "int":
            return ("int", f"(if {c} then {self.as_int(a)} else {self.as_int(b)})")
        if a[0] == "bool" and b[0] == "bool":
            return ("bool", f"(if {c} then {a[1]} else {b[1]})")
        if a[0] == "ext" and b[0] == "ext":
            return ("ext", f"(if {c} then {a[1]} else {b[1]})")
        if a[0] == "lay" and b[0] == "lay":
            return ("lay", ("var", f"(if {c} then {L_render(a[1])} else {L_render(b[1])})"))
        if a[0] == "view" and b[0] == "view":
            return ("view", f"(if {c} then {a[1]} else {b[1]})", ("var", f"(if {c} then {L_render(a[2])} else {L_render(b[2])})"))
        raise TranslateError(f"{self.fname}: conditional over {a[0]} / {b[0]}")

    def call(self, e):
        fn, args = e[1], e[2]
        fn = fn if fn[0] != "paren" else fn[1]
        # ---- method calls
        if fn[0] == "mem":
            obj, name = fn[1], fn[2]
            so = self.strip(obj)
            if so == ("id", "this", None):
                return self.self_call(name, args)
            # lvalue layouts (needed for mutators and reference accessors)
            lv = None
            try:
                lv = self.lvalue(obj)
            except TranslateError:
                lv = None
            if lv is not None and lv[2] == "whole":
                L = L_get(self.get_root(lv[0]), lv[1])
                return self.layout_method(L, name, args, lv)
            v = self.eval(obj)
            if v[0] == "lref":
                lv = v[1]
                return self.layout_method(L_get(self.get_root(lv[0]), lv[1]), name, args, lv)
            if v[0] == "lay":
                return self.layout_method(v[1], name, args)
            if v[0] == "view":
                return self.view_method(v, name, args)
            if v[0] == "ext":
                return self.ext_method(v[1], name, args)
            if v[0] == "ptr" and name == "base" and not args:
                return ("int", v[1])
            if v[0] == "ptr" and name == "layout" and not args:
                return ("lay", ("var", f"{v[1][:-4]}.sub"))
            if v[0] == "iter" and name in ("stride",) and not args:
                return ("int", f"{v[1]}.stride")
            raise TranslateError(f"{self.fname}: method {name} on {v[0]} is outside the vocabulary")
        # ---- (*this)(...)  /  object(...)  call syntax
        if fn[0] == "un*" or (fn[0] == "id" and fn[1] in self.env and self.env[fn[1]][0] == "view"):
            v = self.eval(fn)
            if v[0] == "view":
                return self.view_method(v, "operator()", args)
        if fn[0] == "construct" and not args:
            # sub_type{...}()  : layout operator()() is the identity for D >= 1
            v = self.eval(fn)
            if v[0] == "lay":
                return v
        # ---- free / implicit-this calls
        if fn[0] == "id":
            name = fn[1]
            base = name.split("::")[-1]
            if base in ("min", "max") and len(args) == 2:
                a, b = self.eval(args[0]), self.eval(args[1])
                return ("int", f"({base} {paren(self.as_int(a))} {paren(self.as_int(b))})")
            if base == "abs" and len(args) == 1:
                return ("int", f"(Int.natAbs {paren(self.as_int(self.eval(args[0])))} : Int)")
            if base == "get" and fn[2] is not None and len(args) == 1:
                v = self.eval(args[0])
                if v[0] == "ilist":
                    return ("int", f"(({paren(v[1])}).getD {fn[2]} 0)")
                if v[0] == "elist":
                    return ("ext", f"(({paren(v[1])}).getD {fn[2]} ⟨0, 0⟩)")
                raise TranslateError(f"{self.fname}: get<{fn[2]}> of {v[0]}")
            if base == "ce_swap" and len(args) == 2:
                la, lb = self.lvalue(args[0]), self.lvalue(args[1])
                va, vb = self.read_lv(la), self.read_lv(lb)
                self.write_lv(la, vb)
                self.write_lv(lb, va)
                return ("void",)
            if (base == "static_cast" or name in ("std::move", "std::forward")) and len(args) == 1:
                return self.eval(args[0])
            if base in VIEW_CTORS:
                return self.mk_view(args)
            if base in LAYOUT_CTORS:
                return self.mk_layout(args, fn[2])
            if base in ("iterator", "array_iterator"):
                return self.mk_iter(args)
            if base == "intersection" and len(args) == 2:
                a, b = self.eval(args[0]), self.eval(args[1])
                if a[0] == "ext" and b[0] == "ext":
                    return ("ext", f"(Ext.inter {paren(a[1])} {paren(b[1])})")
            return self.self_call(base, args)
        raise TranslateError(f"{self.fname}: call form {fn[0]} is outside the vocabulary")

    def self_call(self, name, args):
        """member function called on *this (explicitly through this-> or implicitly); a member outside the vocabulary that is
        defined in the same class (a helper introduced by a refactoring, the predicate of a new fast path …) is inlined"""
        try:
            return self.self_call_vocab(name, args)
        except TranslateError as first:
            if self.home is None or self.inline_depth >= 3:
                raise
            src, lo, hi = self.home
            cands = []
            for f in member_functions(src, lo, hi, name):
                try:
                    if len(param_names(f["params"])) == len(args) and all(k == "int" for _, k in param_names(f["params"])):
                        cands.append(f)
                except TranslateError:
                    pass
            bodies = {" ".join(f["body"].split()) for f in cands}
            if len(bodies) != 1:
                raise first
            fn = cands[0]
            child = self.fork()
            child.inline_depth = self.inline_depth + 1
            child.fname = f"{self.fname}>{name}"
            for (n, _), a in zip(param_names(fn["params"]), args):
                child.env[n] = ("int", self.as_int(self.eval(a)))
            try:
                ast = P(lex("{" + fn["body"] + "}", fn["line"])).block()
                r = child.run(ast[1])
            except TranslateError as inner:
                raise TranslateError(f"{first} (and its definition at line {fn['line']} cannot be inlined: {inner})")
            if r is None:
                raise first
            self.asserts, self.untranslated, self.lets = child.asserts, child.untranslated, child.lets
            self.uses_junk = self.uses_junk or child.uses_junk
            if self.kind in ("layout", "layout0"):
                self.this = child.this
            return r

    def self_call_vocab(self, name, args):
        if self.kind in ("layout", "layout0"):
            return self.layout_method(self.this, name, args, ("*this", [], "whole"))
        if self.kind == "view":
            if name == "layout" and not args:
                return ("lay", ("var", f"{self.recv}.lay"))
            return self.view_method(("view", f"{self.recv}.base", ("var", f"{self.recv}.lay")), name, args)
        if self.kind == "range":
            return self.ext_method(self.recv, name, args)
        if self.kind == "iter":
            if name == "advance_" and len(args) == 1:
                n = self.as_int(self.eval(args[0]))
                return ("iterstep", f"({self.recv}.ptr + ({self.recv}.stride * {paren(n)}))")
        raise TranslateError(f"{self.fname}: call of {name} is outside the vocabulary")

    # ---------------------------------------------------------------- statements; returns a value when the path returns
    def run(self, stmts):
        for idx, st in enumerate(stmts):
            k = st[0]
            if k == "block":
                r = self.run(st[1])
                if r is not None:
                    return r
            elif k == "assert":
                if st[1] is None:
                    self.untranslated.append(st[2])
                    continue
                try:
                    cond = self.as_bool(self.eval(st[1]))   # (evaluated first: inlining a helper replaces self.asserts)
                    self.asserts.append(cond)
                except TranslateError as ex:
                    self.untranslated.append(st[2])
            elif k == "decl":
                _, name, ty, how, args, ln = st
                if how == "copy":
                    v = self.eval(args[0])
                    if v[0] == "lref":
                        v = self.read_lv(v[1])
                    if v[0] == "int" and len(v[1]) > 24:
                        ln_ = lean_ident(name) + "_"
                        self.lets.append((ln_, v[1]))
                        v = ("int", ln_)
                    self.env[name] = v
                elif how == "init":
                    if "layout_t" in ty:
                        m = re.search(r"layout_t<([^>]*)>", ty)
                        self.env[name] = self.mk_layout(args, m.group(1) if m else None)
                    elif len(args) == 1:
                        self.env[name] = self.eval(args[0])
                    else:
                        raise TranslateError(f"{self.fname}: declaration of {name} : {ty}")
                else:
                    raise TranslateError(f"{self.fname}: default-initialised local {name}")
            elif k == "assign":
                _, op, l, r, ln = st
                lv = self.lvalue(l)
                rv = self.eval(r)
                if op == "=":
                    self.write_lv(lv, rv)
                else:
                    cur = self.as_int(self.read_lv(lv))
                    x = self.as_int(rv)
                    o = op[0]
                    new = {"+": f"({paren(cur)} + {paren(x)})", "-": f"({paren(cur)} - {paren(x)})", "*": f"({paren(cur)} * {paren(x)})",
                           "/": f"(Int.tdiv {paren(cur)} {paren(x)})", "%": f"(Int.tmod {paren(cur)} {paren(x)})"}[o]
                    self.write_lv(lv, ("int", new))
            elif k == "expr":
                v = self.eval(st[1])
            elif k == "return":
                if st[1] is None:
                    return ("void",)
                e = st[1]
                if e[0] == "braces":      # return {layout, base};
                    return self.mk_view(e[1])
                v = self.eval(e)
                if v[0] == "lref":
                    v = self.read_lv(v[1])
                return v
            elif k == "if":
                _, c, th, el, cx, ln = st
                cond = self.as_bool(self.eval(c))
                rest = stmts[idx + 1:]
                # fork: evaluate both continuations on copies of the state
                a = self.fork()
                ra = a.run([th] + rest)
                b = self.fork()
                rb = b.run(([el] if el is not None else []) + rest)
                self.asserts = self.asserts + [f"(!{paren(cond)} || {x})" for x in a.asserts[len(self.asserts):]] + [f"({paren(cond)} || {x})" for x in b.asserts[len(self.asserts):]]
                self.untranslated = a.untranslated + b.untranslated[len(self.untranslated):]
                self.uses_junk = a.uses_junk or b.uses_junk
                for x in a.lets + b.lets:
                    if x not in self.lets:
                        self.lets.append(x)
                if ra is None and rb is None:
                    # no return on either path: merge the receiver state
                    if self.kind in ("layout", "layout0"):
                        self.this = ("var", f"(if {cond} then {L_render(a.this)} else {L_render(b.this)})")
                    return None
                if ra is None or rb is None:
                    raise TranslateError(f"{self.fname}: `if` where only one path returns")
                return self.ite(cond, ra, rb)
            else:
                raise TranslateError(f"{self.fname}: statement form {k}")
        return None

    def fork(self):
        o = Interp.__new__(Interp)
        o.__dict__.update(self.__dict__)
        o.env = dict(self.env)
        o.asserts = list(self.asserts)
        o.untranslated = list(self.untranslated)
        o.lets = list(self.lets)
        return o


# ------------------------------------------------------------------------------------------------ targets
def param_names(params):
    """[(name, kind)] from a C++ parameter list text"""
    out = []
    depth = 0
    cur = ""
    parts = []
    for ch in params:
        if ch in "<(":
            depth += 1
        elif ch in ">)":
            depth -= 1
        if ch == "," and depth == 0:
            parts.append(cur)
            cur = ""
        else:
            cur += ch
    if cur.strip():
        parts.append(cur)
    for p in parts:
        p = p.strip()
        if not p:
            continue
        m = re.match(r"(.*?)(\.\.\.)?\s*([A-Za-z_][A-Za-z_0-9]*)\s*$", p, re.S)
        if not m:
            raise TranslateError(f"parameter {p!r}")
        ty, pack, name = m.group(1), m.group(2), m.group(3)
        if pack and re.search(r"\bAs\b", ty):
            kind = "alist"
        elif pack:
            kind = "ilist"
        elif re.search(r"index_range|iextension|index_extension|intersecting_range|range\s*(const)?\s*&?$|extension_t", ty):
            kind = "ext"
        elif re.search(r"array_iterator|layout_t", ty):
            kind = "other"
        else:
            kind = "int"
        out.append((name, kind))
    return out


SOURCES = {}


def source(rel):
    if rel not in SOURCES:
        SOURCES[rel] = strip_comments(open(os.path.join(INC, rel)).read())
    return SOURCES[rel]


REGIONS = {
    "range": ("detail/index_range.hpp", r"class\s+range\s*\{"),
    "extension_t": ("detail/index_range.hpp", r"struct\s+extension_t\s*:\s*public\s+range"),
    "layout": ("detail/layout.hpp", r"struct\s+layout_t\s*:\s*multi::equality_comparable<layout_t<D,\s*SSize>>"),
    "layout0": ("detail/layout.hpp", r"struct\s+layout_t<0,\s*SSize>"),
    "viewD": ("array_ref.hpp", r"struct\s+const_subarray\s*:\s*array_types<T,\s*D,\s*ElementPtr,\s*Layout>"),
    "view1": ("array_ref.hpp", r"struct\s+const_subarray<T,\s*1,\s*ElementPtr,\s*Layout>"),
    "iterD": ("array_ref.hpp", r"struct\s+array_iterator\s+:"),
    "subD": ("array_ref.hpp", r"class\s+subarray\s*:\s*public\s+const_subarray<T,\s*D,\s*ElementPtr,\s*Layout>"),
}

# (lean name, region, C++ name, selector, receiver kind)
#   selector: dict(nparams=.., quals=regex, nth=..)  picks one overload; all overloads that match must translate to the SAME
#   Lean text when "all": True (used for the const& / & / && triplets)
TARGETS = [
    ("R_is_empty", "range", "is_empty", dict(nparams=0), "range"),
    ("R_size", "range", "size", dict(nparams=0), "range"),
    ("R_contains", "range", "contains", dict(nparams=1), "range"),
    ("R_front", "range", "front", dict(nparams=0), "range"),
    ("R_back", "range", "back", dict(nparams=0), "range"),
    ("L_reindex1", "layout", "reindex", dict(nparams=1), "layout"),
    ("L_reindex", "layout", "reindex", dict(nparams=2), "layout"),
    ("L_num_elements", "layout", "num_elements", dict(nparams=0), "layout"),
    ("L_is_empty", "layout", "is_empty", dict(nparams=0), "layout"),
    ("L_size", "layout", "size", dict(nparams=0), "layout"),
    ("L_extension", "layout", "extension", dict(nparams=0), "layout"),
    ("L_base_size", "layout", "base_size", dict(nparams=0), "layout"),
    ("L_drop", "layout", "drop", dict(nparams=1), "layout"),
    ("L_slice", "layout", "slice", dict(nparams=2), "layout"),
    ("L_take", "layout", "take", dict(nparams=1), "layout"),
    ("L_halve", "layout", "halve", dict(nparams=0), "layout"),
    ("L_scale", "layout", "scale", dict(nparams=2), "layout"),
    ("L_transpose", "layout", "transpose", dict(nparams=0), "layout"),
    ("L_reverse", "layout", "reverse", dict(nparams=0), "layout"),
    ("L_rotate", "layout", "rotate", dict(nparams=0), "layout"),
    ("L_unrotate", "layout", "unrotate", dict(nparams=0), "layout"),
    ("L0_num_elements", "layout0", "num_elements", dict(nparams=0), "layout0"),
    ("L0_base_size", "layout0", "base_size", dict(nparams=0), "layout0"),
    ("L0_reverse", "layout0", "reverse", dict(nparams=0), "layout0"),
    # D > 1 views
    ("V_at_aux", "viewD", "at_aux_", dict(nparams=1), "view"),
    ("V_bracket", "viewD", "operator[]", dict(nparams=1, params=r"^index idx$"), "view"),
    ("V_reindexed1", "viewD", "reindexed", dict(nparams=1, all=True), "view"),
    ("V_reindexed", "viewD", "reindexed", dict(nparams=2), "view"),
    ("V_taked_aux", "viewD", "taked_aux_", dict(nparams=1), "view"),
    ("V_dropped_aux", "viewD", "dropped_aux_", dict(nparams=1), "view"),
    ("V_sliced_aux", "viewD", "sliced_aux_", dict(nparams=2), "view"),
    ("V_strided_aux", "viewD", "strided_aux_", dict(nparams=1), "view"),
    ("V_range", "viewD", "range", dict(nparams=1), "view"),
    ("V_blocked", "viewD", "blocked", dict(nparams=2, all=True), "view"),
    ("V_halved_aux", "viewD", "halved_aux_", dict(nparams=0), "view"),
    ("V_partitioned_aux", "viewD", "partitioned_aux_", dict(nparams=1), "view"),
    ("V_chunked_aux", "viewD", "chunked_aux_", dict(nparams=1), "view"),
    ("V_is_flattable", "viewD", "is_flattable", dict(nparams=0), "view"),
    ("V_flatted", "viewD", "flatted", dict(nparams=0), "view"),
    ("V_broadcasted", "viewD", "broadcasted", dict(nparams=0), "view"),
    ("V_diagonal_aux", "viewD", "diagonal_aux_", dict(nparams=0), "view"),
    ("V_reversed_aux", "viewD", "reversed_aux_", dict(nparams=0), "view"),
    ("V_transposed_aux", "viewD", "transposed_aux_", dict(nparams=0), "view"),
    ("V_rotated_aux", "viewD", "rotated_aux_", dict(nparams=0), "view"),
    ("V_unrotated_aux", "viewD", "unrotated_aux_", dict(nparams=0), "view"),
    ("V_begin_aux", "viewD", "begin_aux_", dict(nparams=0), "view"),
    ("V_end_aux", "viewD", "end_aux_", dict(nparams=0), "view"),
    # public wrappers of the D > 1 class (every overload must translate to the same text)
    ("W_sliced", "viewD", "sliced", dict(nparams=2, all=True), "view"),
    ("W_taked", "viewD", "taked", dict(nparams=1, all=True), "view"),
    ("W_dropped", "viewD", "dropped", dict(nparams=1, all=True), "view"),
    ("W_strided", "viewD", "strided", dict(nparams=1, all=True), "view"),
    ("W_rotated", "viewD", "rotated", dict(nparams=0, all=True), "view"),
    ("W_unrotated", "viewD", "unrotated", dict(nparams=0, all=True), "view"),
    ("W_transposed", "viewD", "transposed", dict(nparams=0, all=True), "view"),
    ("W_reversed", "viewD", "reversed", dict(nparams=0, all=True), "view"),
    ("W_partitioned", "viewD", "partitioned", dict(nparams=1, all=True), "view"),
    ("W_chunked", "viewD", "chunked", dict(nparams=1, all=True), "view"),
    ("W_halved", "viewD", "halved", dict(nparams=0, all=True), "view"),
    ("W_diagonal", "viewD", "diagonal", dict(nparams=0, all=True), "view"),
    ("W_paren0", "viewD", "paren_aux_", dict(nparams=0, all=True), "view"),
    ("W_paren_rng", "viewD", "paren_aux_", dict(nparams=2, params=r"^index_range rng, As\.\.\. args$", all=True), "view"),
    ("W_paren_clip", "viewD", "paren_aux_", dict(nparams=2, params=r"^intersecting_range<index> inr, As\.\.\. args$", all=True), "view"),
    # the mutable class `subarray` (its overrides must agree with the const class)
    ("S_sliced", "subD", "sliced", dict(nparams=2, all=True), "view"),
    ("S_range", "subD", "range", dict(nparams=1, all=True), "view"),
    ("S_taked", "subD", "taked", dict(nparams=1, all=True), "view"),
    ("S_dropped", "subD", "dropped", dict(nparams=1, all=True), "view"),
    ("S_strided", "subD", "strided", dict(nparams=1, all=True), "view"),
    ("S_rotated", "subD", "rotated", dict(nparams=0, all=True), "view"),
    ("S_unrotated", "subD", "unrotated", dict(nparams=0, all=True), "view"),
    ("S_transposed", "subD", "transposed", dict(nparams=0, all=True), "view"),
    ("S_reversed", "subD", "reversed", dict(nparams=0, all=True), "view"),
    ("S_partitioned", "subD", "partitioned", dict(nparams=1, all=True), "view"),
    ("S_chunked", "subD", "chunked", dict(nparams=1, all=True), "view"),
    ("S_diagonal", "subD", "diagonal", dict(nparams=0, all=True), "view"),
    ("S_flatted", "subD", "flatted", dict(nparams=0, quals=r"^&$"), "view"),
    ("S_bracket", "subD", "operator[]", dict(nparams=1, params=r"^index idx$", all=True), "view"),
    ("S_paren0", "subD", "paren_aux_", dict(nparams=0, all=True), "view"),
    ("S_paren_idx1", "subD", "paren_aux_", dict(nparams=1, params=r"^index idx$", all=True), "view"),
    ("S_paren_idx", "subD", "paren_aux_", dict(nparams=2, params=r"^index idx, As\.\.\. args$", all=True), "view"),
    ("S_paren_rng", "subD", "paren_aux_", dict(nparams=2, params=r"^index_range irng, As\.\.\. args$", all=True), "view"),
    ("S_paren_clip", "subD", "paren_aux_", dict(nparams=2, params=r"^intersecting_range<index> inr, As\.\.\. args$", all=True), "view"),
    # D == 1 views
    ("W1_sliced", "view1", "sliced", dict(nparams=2, all=True), "view"),
    ("W1_taked", "view1", "taked", dict(nparams=1, all=True), "view"),
    ("W1_dropped", "view1", "dropped", dict(nparams=1, all=True), "view"),
    ("W1_strided", "view1", "strided", dict(nparams=1, all=True), "view"),
    ("W1_partitioned", "view1", "partitioned", dict(nparams=1, all=True), "view"),
    ("W1_chunked", "view1", "chunked", dict(nparams=1, all=True), "view"),
    ("W1_halved", "view1", "halved", dict(nparams=0, all=True), "view"),
    ("W1_paren0", "view1", "paren_aux_", dict(nparams=0, all=True), "view"),
    ("W1_paren_idx", "view1", "paren_aux_", dict(nparams=1, params=r"^index idx$", all=True), "view"),
    ("W1_paren_rng", "view1", "paren_aux_", dict(nparams=1, params=r"^index_range const& rng$", all=True), "view"),
    ("W1_paren_clip", "view1", "paren_aux_", dict(nparams=1, params=r"^intersecting_range<index> const& rng$", all=True), "view"),
    ("V1_at_aux", "view1", "at_aux_", dict(nparams=1), "view"),
    ("V1_reindexed1", "view1", "reindexed", dict(nparams=1, quals=r"^&$"), "view"),
    ("V1_taked_aux", "view1", "taked_aux_", dict(nparams=1), "view"),
    ("V1_dropped_aux", "view1", "dropped_aux_", dict(nparams=1), "view"),
    ("V1_sliced_aux", "view1", "sliced_aux_", dict(nparams=2), "view"),
    ("V1_strided_aux", "view1", "strided_aux_", dict(nparams=1), "view"),
    ("V1_range", "view1", "range", dict(nparams=1), "view"),
    ("V1_blocked", "view1", "blocked", dict(nparams=2), "view"),
    ("V1_halved_aux", "view1", "halved_aux_", dict(nparams=0), "view"),
    ("V1_partitioned_aux", "view1", "partitioned_aux_", dict(nparams=1), "view"),
    ("V1_chunked_aux", "view1", "chunked_aux_", dict(nparams=1), "view"),
    ("V1_reversed_aux", "view1", "reversed_aux_", dict(nparams=0), "view"),
]


def pick(cands, sel, what):
    c = []
    for x in cands:
        try:
            if len(param_names(x["params"])) == sel["nparams"]:
                c.append(x)
        except TranslateError:
            pass
    if "params" in sel:
        c = [x for x in c if re.search(sel["params"], " ".join(x["params"].split()))]
    if "quals" in sel:
        c = [x for x in c if re.search(sel["quals"], x["quals"])]
    if not c:
        raise TranslateError(f"{what}: no definition with {sel} found")
    if sel.get("all"):
        return c
    if "nth" in sel:
        return [c[sel["nth"]]]
    if len(c) > 1:
        # several overloads (const& / & / &&): they must all translate to the same text
        return c
    return c


def translate_one(lean_name, region, cpp, sel, kind):
    rel, hdr = REGIONS[region]
    src = source(rel)
    lo, hi = class_region(src, hdr)
    cands = member_functions(src, lo, hi, cpp if not cpp.startswith("operator") else cpp)
    if cpp.startswith("operator"):
        cands = member_functions(src, lo, hi, "operator" + cpp[8:]) if False else member_functions_op(src, lo, hi, cpp[8:])
    chosen = pick(cands, sel, f"{rel}:{cpp}")
    texts = []
    for fn in chosen:
        pn = param_names(fn["params"])
        recv = {"layout": "l", "layout0": "l", "view": "v", "range": "r", "iter": "it"}[kind]
        params = {}
        binders = []
        for n, k in pn:
            ln = lean_ident(n)
            if k == "int":
                params[n] = ("int", ln)
                binders.append(f"({ln} : Int)")
            elif k == "ext":
                params[n] = ("ext", ln)
                binders.append(f"({ln} : Ext)")
            elif k == "ilist":
                params[n] = ("ilist", ln)
                binders.append(f"({ln} : List Int)")
            elif k == "alist":
                params[n] = ("alist", ln)
                binders.append(f"({ln} : List Arg)")
            else:
                raise TranslateError(f"{cpp}: parameter {n} of unsupported type")
        it = Interp(kind, recv, params, f"{rel}:{fn['line']}:{cpp}")
        it.home = (src, lo, hi)
        toks = lex("{" + fn["body"] + "}", fn["line"])
        ast = P(toks).block()
        r = it.run(ast[1])
        if r is None:
            raise TranslateError(f"{rel}:{fn['line']}:{cpp}: no return value")
        texts.append((fn, binders, it, r))
    # all chosen overloads must agree
    rendered = [render_def(lean_name, kind, t[1], t[2], t[3]) for t in texts]
    if len(set(x[0] for x in rendered)) != 1:
        raise TranslateError(f"{rel}:{cpp}: the overloads {[t[0]['line'] for t in texts]} differ:\n" + "\n---\n".join(x[0] for x in rendered))
    fn = texts[0][0]
    doc = f"/-- {rel}:{', '.join(str(t[0]['line']) for t in texts)}  `{cpp}({' '.join(fn['params'].split())}) {fn['quals']}` -/"
    return doc + "\n" + rendered[0][0], dict(lean=lean_name, file=rel, lines=[t[0]["line"] for t in texts], extents=[[t[0]["line"], t[0]["end_line"]] for t in texts], cpp=cpp, asserts=len(texts[0][2].asserts),
                                             untranslated_asserts=texts[0][2].untranslated, result=rendered[0][1])


def member_functions_op(src, lo, hi, op):
    """operator[] etc."""
    res = []
    pat = re.compile(r"operator\s*" + re.escape(op) + r"\s*\(")
    depths = []
    d = 0
    for k in range(lo, hi + 1):
        ch = src[k]
        if ch == "{":
            d += 1
        depths.append(d)
        if ch == "}":
            d -= 1
    for m in pat.finditer(src, lo, hi):
        if depths[m.start() - lo] != 1:
            continue
        p0 = m.end() - 1
        p1 = match_brace(src, p0, "(", ")")
        tail = header_tail(src, p1 + 1)
        if tail is None or tail[2] != "{":
            continue
        b0 = tail[3] - 1
        b1 = match_brace(src, b0)
        res.append(dict(params=src[p0 + 1:p1], quals=tail[0], body=src[b0 + 1:b1], init=None, line=line_of(src, m.start()), end_line=line_of(src, b1), ret=tail[1]))
    return res


def lean_ident(n):
    return {"first": "first", "last": "last", "end": "end'", "from": "from'", "at": "at'", "size": "size'", "count": "count", "rest": "rest"}.get(n, n)


def render_def(name, kind, binders, it, r):
    recv = {"layout": "(l : Layout)", "layout0": "(l : Layout) (offset0 nelems0 : Int)", "view": "(v : View)", "range": "(r : Ext)", "iter": "(it : ArrIt)"}[kind]
    b = " ".join([recv] + binders + (["(junk : Int)"] if it.uses_junk else []))
    if r[0] == "int":
        ty, body = "Int", r[1]
    elif r[0] == "bool":
        ty, body = "Bool", r[1]
    elif r[0] == "ext":
        ty, body = "Ext", r[1]
    elif r[0] == "lay":
        ty, body = "Layout", L_render(r[1])
    elif r[0] == "view":
        ty, body = "View", f"⟨{r[1]}, {L_render(r[2])}⟩"
    elif r[0] == "iterv":
        ty, body = "Int × Layout × Int", f"({r[1]}, {L_render(r[2])}, {r[3]})"
    else:
        raise TranslateError(f"{name}: result kind {r[0]}")
    lets = "".join(f"  let {n} : Int := {e}\n" for n, e in it.lets)
    out = f"def {name} {b} : {ty} :=\n{lets}  {body}\n"
    if it.asserts:
        out += f"/-- the assertions of the body, in order -/\ndef {name}_asserts {b} : Bool :=\n{lets}  " + " &&\n  ".join(it.asserts) + "\n"
    else:
        out += f"/-- the body has no assertion -/\ndef {name}_asserts {b} : Bool := true\n"
    return out, ty


def ctor_from_extensions():
    """layout_t(extensions_type const&) : the three mem-initialisers, with `e` the leading extension and `sub` the layout
    built from the remaining ones (the recursion `sub_{...tail(extensions)...}` is the hand model's `ofExts`)"""
    rel, hdr = REGIONS["layout"]
    src = source(rel)
    lo, hi = class_region(src, hdr)
    cands = [c for c in member_functions(src, lo, hi, "layout_t") if c["init"] and re.fullmatch(r"\s*extensions_type\s+const&\s+extensions\s*", c["params"])]
    if len(cands) != 1:
        raise TranslateError(f"{rel}: constructor layout_t(extensions_type const&) not found (candidates: {len(cands)})")
    init = cands[0]["init"]
    items = {}
    for m in re.finditer(r"(sub_|stride_|offset_|nelems_)\s*\{", init):
        j = match_brace(init, m.end() - 1)
        items[m.group(1)] = init[m.end():j]
    if set(items) != {"sub_", "stride_", "offset_", "nelems_"}:
        raise TranslateError(f"{rel}:{cands[0]['line']}: initialisers {sorted(items)}")
    order = [m.group(1) for m in re.finditer(r"(sub_|stride_|offset_|nelems_)\s*\{", init)]
    if order[:1] != ["sub_"] or order.index("stride_") > order.index("offset_"):
        raise TranslateError("member initialisation order changed")
    if not re.fullmatch(r"std::apply\(\[\]\(autoconst&\.\.\.subextensions\)\{returnmulti::extensions_t<D-1>\{subextensions\.\.\.\};\},detail::tail\(extensions\.base\(\)\)\)", re.sub(r"\s+", "", items["sub_"])):
        raise TranslateError(f"{rel}: sub_ initialiser is not the tail of the extensions: {items['sub_']!r}")
    vals = {}
    it = Interp("layout", "l", {}, f"{rel}:{cands[0]['line']}:layout_t(extensions)")
    # the object under construction: sub_ = sub; stride_ then offset_ then nelems_ in declaration order
    it.this = ("cons", "0", "0", "0", ("var", "sub"))

    def ev(txt):
        txt = re.sub(r"boost::multi::detail::get<0>\(extensions\.base\(\)\)", "e0__", txt)
        toks = lex(txt, cands[0]["line"])
        p = P(toks)
        e = p.expr()
        if p.peek()[0] != "eof":
            raise TranslateError(f"initialiser {txt!r}")
        it.env["e0__"] = ("ext", "e")
        return it.as_int(it.eval(e))
    s = ev(items["stride_"])
    it.this = ("cons", s, "0", "0", ("var", "sub"))
    o = ev(items["offset_"])
    it.this = ("cons", s, o, "0", ("var", "sub"))
    n = ev(items["nelems_"])
    txt = f"/-- {rel}:{cands[0]['line']}  `layout_t(extensions_type const&)`: mem-initialisers `stride_{{…}}, offset_{{…}}, nelems_{{…}}` over the sub-layout `sub` built from the remaining extensions -/\n"
    txt += f"def L_ctor (e : Ext) (sub : Layout) : Layout :=\n  (⟨{s}, {o}, {n}⟩ :: sub)\n"
    return txt, dict(lean="L_ctor", file=rel, lines=[cands[0]["line"]], cpp="layout_t(extensions_type const&)", asserts=0, untranslated_asserts=[], result="Layout")


def ctor0():
    rel, hdr = REGIONS["layout0"]
    src = source(rel)
    lo, hi = class_region(src, hdr)
    cands = [c for c in member_functions(src, lo, hi, "layout_t") if c["init"] and "extensions_type" in c["params"]]
    if len(cands) != 1:
        raise TranslateError(f"{rel}: layout_t<0>(extensions_type const&) not found")
    m = re.fullmatch(r"\s*offset_\{(\d+)\}\s*,\s*nelems_\{(\d+)\}\s*", cands[0]["init"])
    if not m:
        raise TranslateError(f"{rel}:{cands[0]['line']}: layout_t<0> initialisers {cands[0]['init']!r}")
    txt = f"/-- {rel}:{cands[0]['line']}  `layout_t<0>(extensions_type const&) : offset_{{{m.group(1)}}}, nelems_{{{m.group(2)}}}` -/\n"
    txt += f"def L0_ctor_offset : Int := {m.group(1)}\ndef L0_ctor_nelems : Int := {m.group(2)}\n"
    return txt, dict(lean="L0_ctor_nelems", file=rel, lines=[cands[0]["line"]], cpp="layout_t<0>(extensions_type const&)", asserts=0, untranslated_asserts=[], result="Int")


def ext_intersection():
    rel, hdr = REGIONS["extension_t"]
    src = source(rel)
    lo, hi = class_region(src, hdr)
    cands = member_functions(src, lo, hi, "intersection")
    if len(cands) != 1:
        raise TranslateError(f"{rel}: intersection(extension_t, extension_t): {len(cands)} candidates")
    fn = cands[0]
    pn = [n for n, _ in param_names(re.sub(r"extension_t\s+const&", "index_extension ", fn["params"]))]
    it = Interp("free", "", {pn[0]: ("ext", "a"), pn[1]: ("ext", "b")}, f"{rel}:{fn['line']}:intersection")
    ast = P(lex("{" + fn["body"] + "}", fn["line"])).block()
    r = it.run(ast[1])
    if r is None or r[0] != "ext":
        raise TranslateError(f"{rel}:{fn['line']}: intersection does not return an extension")
    txt = f"/-- {rel}:{fn['line']}  `intersection(extension_t const&, extension_t const&)` -/\ndef E_intersection (a b : Ext) : Ext :=\n  {r[1]}\n"
    return txt, dict(lean="E_intersection", file=rel, lines=[fn["line"]], cpp="intersection", asserts=0, untranslated_asserts=[], result="Ext")


def range_eq():
    rel, hdr = REGIONS["range"]
    src = source(rel)
    lo, hi = class_region(src, hdr)
    cands = [c for c in member_functions_op(src, lo, hi, "==") if len(param_names(re.sub(r"range\s+const&", "index_range ", c["params"]))) == 2]
    if len(cands) != 1:
        raise TranslateError(f"{rel}: operator==(range, range): {len(cands)} candidates")
    fn = cands[0]
    pn = [n for n, _ in param_names(re.sub(r"range\s+const&", "index_range ", fn["params"]))]
    it = Interp("free", "", {pn[0]: ("ext", "a"), pn[1]: ("ext", "b")}, f"{rel}:{fn['line']}:operator==")
    ast = P(lex("{" + fn["body"] + "}", fn["line"])).block()
    r = it.run(ast[1])
    if r is None or r[0] != "bool":
        raise TranslateError(f"{rel}:{fn['line']}: operator== does not return a condition")
    txt = f"/-- {rel}:{fn['line']}  `operator==(range const&, range const&)` -/\ndef R_eq (a b : Ext) : Bool :=\n  {r[1]}\n"
    return txt, dict(lean="R_eq", file=rel, lines=[fn["line"]], cpp="operator==", asserts=0, untranslated_asserts=[], result="Bool")


PRELUDE = """/-
  GENERATED by tools/gen_layout.py from the headers under $VERIF_REPO/include/boost/multi — DO NOT EDIT.
  One non-recursive definition per C++ member function: the body as the code has it, `this->layout()` an opaque
  `Layout` read through `hd`/`tl`, calls to other library functions replaced by the hand-written model function of the
  same role.  `MultiProofs/GenTie.lean` proves each of them equal to the hand-written model.
-/
import MultiModel.View

set_option linter.unusedVariables false

namespace Multi.Gen
open Multi

/-- first level of a layout (`stride_`, `offset_`, `nelems_`); the C++ type guarantees it exists wherever it is read -/
def hd (l : Layout) : Dim := l.headD ⟨0, 0, 0⟩
/-- `sub_` -/
def tl (l : Layout) : Layout := l.tail

@[simp] theorem hd_cons (d : Dim) (l : Layout) : hd (d :: l) = d := rfl
@[simp] theorem tl_cons (d : Dim) (l : Layout) : tl (d :: l) = l := rfl

"""


def main():
    out = [PRELUDE]
    meta = []
    errors = []
    specials = [ctor_from_extensions, ctor0, ext_intersection, range_eq]
    for f in specials:
        try:
            t, m = f()
            out.append(t)
            meta.append(m)
        except TranslateError as ex:
            errors.append(str(ex))
    for (lean_name, region, cpp, sel, kind) in TARGETS:
        try:
            t, m = translate_one(lean_name, region, cpp, sel, kind)
            out.append(t)
            meta.append(m)
        except TranslateError as ex:
            errors.append(f"{lean_name}: {ex}")
            # keep the file well-formed: a definition whose tie theorem cannot hold
            out.append(f"/-- NOT TRANSLATED: {str(ex)[:200].replace('-/', '- /')} -/\ndef {lean_name}_untranslated : Unit := ()\n")
    out.append("end Multi.Gen\n")
    text = "\n".join(out)
    os.makedirs(os.path.dirname(OUT), exist_ok=True)
    old = open(OUT).read() if os.path.exists(OUT) else None
    if old != text:
        open(OUT, "w").write(text)
    json.dump({"functions": meta, "errors": errors}, open(OUTJ, "w"), indent=1)
    print(f"gen_layout: {len(meta)} functions translated, {sum(m['asserts'] for m in meta)} assertions, "
          f"{sum(len(m['untranslated_asserts']) for m in meta)} assertions outside the vocabulary, {len(errors)} errors; "
          f"{'unchanged' if old == text else 'REWRITTEN'} {os.path.relpath(OUT, HERE)}")
    for e in errors:
        print("gen_layout: ERROR", e)
    return 2 if errors else 0


if __name__ == "__main__":
    sys.exit(main())
