#!/usr/bin/env python3
"""Translator: assignment, swap and comparison of views and flat element ranges  ->  lean/MultiModel/Gen/StoreGen.lean

Companion of gen_layout.py / gen_iters.py (same tokenizer and parser).  Reads, from the CURRENT array_ref.hpp under
$VERIF_REPO (default /repo):

    elements_range_t   operator=(OtherElementRange&&) & / &&, operator=(elements_range_t&&), operator=(initializer_list) &,
                       swap (4 overloads), operator==, operator!=
    subarray<T, D>     operator= from a view (every overload: same type / other type / rvalue source / copy / move), swap
    const_subarray<T, D>  (D > 1)   operator==, operator!= (member and friend), operator<, operator<=, operator>
    const_subarray<T, 1>            operator==, operator!= (both pairs), operator<, operator>, operator<=, operator>=

Each body is compiled into a Lean term in the `Option` monad over the memory `m : Mem α` — an assertion is `if … then … else
none` (the hand model's convention), `this == std::addressof(other)` a Boolean parameter `sameObject`, a call of an `adl_*`
algorithm on element iterators the corresponding loop of `MultiModel/Store.lean` (`ElemIt.copyN`, `swapN`, `equalN`, `storeN`),
a call of another library operator the hand-model function of the same role (`ElemRange.assign`, `ElemRange.eq`, `View.eq`,
`View.lt` …).  `MultiProofs/GenTieStore.lean` proves each equal to the hand-written model.  Anything else is an error (exit 2).
"""
import os, re, sys, json
sys.path.insert(0, os.path.dirname(os.path.abspath(__file__)))
import gen_layout as GL
from gen_layout import TranslateError, paren, canon2

HERE = GL.HERE
OUT = os.path.join(HERE, "lean/MultiModel/Gen/StoreGen.lean")
OUTJ = os.path.join(HERE, "lean/MultiModel/Gen/StoreGen.functions.json")
REL = "array_ref.hpp"

REGIONS = {
    "erange": r"struct\s+elements_range_t\s*\{",
    "subD": r"class\s+subarray\s*:\s*public\s+const_subarray<T,\s*D,\s*ElementPtr,\s*Layout>",
    "viewD": r"struct\s+const_subarray\s*:\s*array_types<T,\s*D,\s*ElementPtr,\s*Layout>",
    "view1": r"struct\s+const_subarray<T,\s*1,\s*ElementPtr,\s*Layout>",
    "aref": r"class\s+array_ref\s*:\s*public\s+subarray<T,\s*D,\s*ElementPtr,\s*Layout>",
}


class C:
    """compiler of one function body; `kind` is the receiver: "erange" (dst/src : ElemRange) or "view" (dst/src : View)"""

    def __init__(self, kind, this, other, fname, extra=None):
        self.kind, self.this, self.other, self.fname = kind, this, other, fname
        self.same_object = False
        self.uses_lt = False
        self.nbind = 0
        self.extra = extra or {}

    def strip(self, e):
        while e[0] == "paren":
            e = e[1]
        if e[0] == "call" and e[1][0] == "id" and e[1][1] in ("std::move", "std::forward", "std::as_const") and len(e[2]) == 1:
            return self.strip(e[2][0])
        return e

    def who(self, e):
        """the object an expression denotes: 'this' | 'other' | None"""
        e = self.strip(e)
        if e == ("id", "this", None):
            return self.this
        if e[0] == "un*" and self.strip(e[1]) == ("id", "this", None):
            return self.this
        if e[0] == "id" and e[1] == "self":
            return self.this
        if e[0] == "id" and e[1] == "other":
            return self.other
        return None

    # ---- values: ("obj", lean) ("er", lean : ElemRange) ("it", leanOptionExpr) ("exts", lean) ("ext", lean) ("int", lean) ("bool", lean)
    #              ("obool", lean : Option Bool)  ("vals", lean : List α)
    def ev(self, e, m):
        e = self.strip(e)
        k = e[0]
        w = self.who(e)
        if w is not None:
            return ("obj", w)
        if k == "num":
            return ("int", str(e[1]))
        if k == "id" and e[1] in ("true", "false"):
            return ("bool", e[1])
        if k == "id" and e[1] in self.extra:
            return self.extra[e[1]]
        if k == "id" and e[1] == "l_" and self.kind == "erange":
            return ("erlay", self.this)
        if k == "call":
            fn, args = e[1], e[2]
            if fn[0] == "mem":
                return self.method(self.ev_obj(fn[1], m), fn[2], args, m)
            if fn[0] == "id":
                name = fn[1]
                base = name.split("::")[-1]
                if name in ("std::begin", "std::end", "adl_begin", "adl_end") and len(args) == 1:
                    return self.method(self.ev_obj(args[0], m), base.replace("adl_", ""), [], m)
                if base == "static_cast" and len(args) == 1:
                    return self.ev(args[0], m)
                if base == "adl_equal" and len(args) == 3 and self.kind == "aref":
                    a, b, c = [self.ev(x, m) for x in args]
                    if a[0] == "ptr" and b[0] == "ptrplus" and b[1] == a[1] and c[0] == "ptr":
                        return ("bool", f"(equalFlat {m} ({b[2]}).toNat {a[1]} {c[1]})")
                    raise TranslateError(f"{self.fname}: adl_equal over {a[0]}, {b[0]}, {c[0]}")
                if base in ("adl_equal",) and len(args) == 3:
                    its = [self.ev(a, m) for a in args]
                    return self.with_iters(its, lambda v: f"ElemIt.equalN {m} ({v[1]}.diff {v[0]}).toNat {v[0]} {v[2]}", "obool")
                if base == "adl_lexicographical_compare" and len(args) == 4:
                    def rows_of(b, e):
                        b, e = self.strip(b), self.strip(e)
                        for x, nm in ((b, "begin"), (e, "end")):
                            ok = (x[0] == "call" and x[1][0] == "mem" and x[1][2] == nm and not x[2]) or \
                                 (x[0] == "call" and x[1][0] == "id" and x[1][1] == "adl_" + nm and len(x[2]) == 1)
                            if not ok:
                                raise TranslateError(f"{self.fname}: lexicographical_compare over something else than begin()/end()")
                        ob = self.who(b[1][1] if b[1][0] == "mem" else b[2][0])
                        oe = self.who(e[1][1] if e[1][0] == "mem" else e[2][0])
                        if ob is None or ob != oe:
                            raise TranslateError(f"{self.fname}: begin()/end() of different objects")
                        return ob
                    a, b = rows_of(args[0], args[1]), rows_of(args[2], args[3])
                    self.uses_lt = True
                    return ("bool", f"(lexRowsOf ltE {m} {a} {b})")
                if base in ("lexicographical_compare", "lexicographical_compare_") and len(args) == 2:
                    a, b = self.ev(args[0], m), self.ev(args[1], m)
                    if a[0] == "obj" and b[0] == "obj":
                        self.uses_lt = True
                        return ("bool", f"(View.lt ltE {a[1]} {b[1]} {m})")
                # implicit this
                return self.method(("obj", self.this), base, args, m)
        if k in ("==", "!="):
            a, b = self.ev(e[1], m), self.ev(e[2], m)
            if a[0] == "exts" and b[0] == "exts":
                x, y = canon2(a[1], b[1])
                t = f"(Exts.eqv {x} {y})"
                return ("bool", t if k == "==" else f"(!{t})")
            if a[0] == "ext" and b[0] == "ext":
                x, y = canon2(a[1], b[1])
                t = f"(Ext.eqv {x} {y})"
                return ("bool", t if k == "==" else f"(!{t})")
            if a[0] == "int" and b[0] == "int":
                x, y = canon2(a[1], b[1])
                return ("bool", f"({x} {k} {y})")
            if a[0] == "er" and b[0] == "er":
                return ("obool", f"(ElemRange.{'eq' if k == '==' else 'ne'} {a[1]} {b[1]} {m})")
            if a[0] == "obj" and b[0] == "obj" and self.kind == "view":
                return ("obool", f"(View.{'eq' if k == '==' else 'ne'} {a[1]} {b[1]} {m})")
        if k in ("<", ">"):
            a, b = self.ev(e[1], m), self.ev(e[2], m)
            if a[0] == "int" and b[0] == "int":
                if k == ">":
                    a, b = b, a
                return ("bool", f"(decide ({a[1]} < {b[1]}))")
            if k == ">":
                raise TranslateError(f"{self.fname}: > on {a[0]}, {b[0]}")
            if a[0] == "obj" and b[0] == "obj" and self.kind == "view":
                self.uses_lt = True
                return ("bool", f"(View.lt ltE {a[1]} {b[1]} {m})")
        if k == "un!":
            v = self.ev(e[1], m)
            if v[0] == "bool":
                return ("bool", f"(!{v[1]})")
            if v[0] == "obool":
                return ("obool", f"(({v[1]}).map fun r => !r)")
        if k == "+":
            a, b = self.ev(e[1], m), self.ev(e[2], m)
            if a[0] == "ptr" and b[0] == "int":
                return ("ptrplus", a[1], b[1])
        if k in ("&&", "||"):
            a, b = self.ev(e[1], m), self.ev(e[2], m)
            if a[0] == "bool" and b[0] == "bool":
                return ("bool", f"({a[1]} {k} {b[1]})")
            if a[0] == "bool" and b[0] == "obool":      # short circuit: the right operand runs only when needed
                return ("obool", f"(if {a[1]} then {b[1]} else some false)" if k == "&&" else f"(if {a[1]} then some true else {b[1]})")
            if a[0] == "obool" and b[0] == "bool":
                return ("obool", f"(({a[1]}).bind fun l => pure (l {k} {b[1]}))")
        raise TranslateError(f"{self.fname}: expression outside the vocabulary: {e!r}")

    def ev_obj(self, e, m):
        return self.ev(e, m)

    def method(self, obj, name, args, m):
        if obj[0] == "obj":
            o = obj[1]
            if self.kind == "view":
                if name == "elements" and not args:
                    return ("er", f"(ElemRange.ofView {o})")
                if name == "extensions" and not args:
                    return ("exts", f"{o}.exts")
                if name == "extension" and not args:
                    return ("ext", f"{o}.ext")
            if self.kind == "aref":
                if name == "num_elements" and not args:
                    return ("int", f"{o}.numElements")
                if name == "data_elements" and not args:
                    return ("ptr", f"{o}.base")
                if name == "extensions" and not args:
                    return ("exts", f"{o}.exts")
            if self.kind == "erange":
                if name == "size" and not args:
                    return ("int", f"{o}.size")
                if name in ("is_empty", "empty") and not args:
                    return ("bool", f"{o}.isEmpty")
                if name == "begin" and not args:
                    return ("it", f"{o}.begin'")
                if name == "end" and not args:
                    return ("it", f"{o}.end'")
        if obj[0] == "er":
            if name == "begin" and not args:
                return ("it", f"{obj[1]}.begin'")
            if name == "end" and not args:
                return ("it", f"{obj[1]}.end'")
            if name == "size" and not args:
                return ("int", f"{obj[1]}.size")
        if obj[0] == "erlay" and name in ("is_empty", "empty") and not args:
            return ("bool", f"{obj[1]}.isEmpty")     # elements_range_t::is_empty() is `l_.is_empty()`
        if obj[0] == "erlay" and name == "num_elements" and not args:
            return ("int", f"{obj[1]}.size")
        if obj[0] == "ext" and name == "first" and not args:
            return ("int", f"{obj[1]}.first")
        if obj[0] == "vals":
            if name == "size" and not args:
                return ("int", f"({obj[1]}.length : Int)")
            if name == "begin" and not args:
                return ("valsbegin", obj[1])
        raise TranslateError(f"{self.fname}: {name}() on {obj[0]} is outside the vocabulary")

    def with_iters(self, its, body, kind):
        """bind the Option-valued iterators in argument order, then run `body(names)`"""
        names = []
        for v in its:
            if v[0] != "it":
                raise TranslateError(f"{self.fname}: algorithm argument {v[0]} is not an element iterator")
            self.nbind += 1
            names.append(f"i{self.nbind}")
        t = body(names)
        for n, v in reversed(list(zip(names, its))):
            t = f"(({v[1]}).bind fun {n} => {t})"
        return (kind, t)

    # ---- an effect statement -> Option (Mem α) term over memory `m`
    def effect(self, e, m):
        e = self.strip(e)
        if e[0] == "call" and e[1][0] == "id":
            base = e[1][1].split("::")[-1]
            a = e[2]
            if base == "adl_copy" and len(a) == 3:
                return self.with_iters([self.ev(x, m) for x in a], lambda v: f"ElemIt.copyN ({v[1]}.diff {v[0]}).toNat {v[0]} {v[2]} {m}", "omem")[1]
            if base == "adl_swap_ranges" and len(a) == 3:
                return self.with_iters([self.ev(x, m) for x in a], lambda v: f"ElemIt.swapN ({v[1]}.diff {v[0]}).toNat {v[0]} {v[2]} {m}", "omem")[1]
            if base == "copy_elements_" and len(a) == 1 and self.kind == "aref":
                v = self.ev(a[0], m)
                if v[0] == "ptr":
                    return f"AR_copy_elements {self.this} {paren(v[1])} {m}"
            if base == "adl_copy_n" and len(a) == 3 and self.kind == "aref":
                src, cnt, dst = self.ev(a[0], m), self.ev(a[1], m), self.ev(a[2], m)
                if src[0] == "ptr" and cnt[0] == "int" and dst[0] == "ptr":
                    return f"some (copyFlat ({cnt[1]}).toNat {paren(src[1])} {paren(dst[1])} {m})"
            if base == "adl_copy_n" and len(a) == 3:
                src, cnt, dst = self.ev(a[0], m), self.ev(a[1], m), self.ev(a[2], m)
                if src[0] == "valsbegin" and cnt == ("int", f"({src[1]}.length : Int)") and dst[0] == "it":
                    return self.with_iters([dst], lambda v: f"ElemIt.storeN {src[1]} {v[0]} {m}", "omem")[1]
        raise TranslateError(f"{self.fname}: statement outside the vocabulary: {e!r}")

    def compile(self, stmts, m, depth=0, boolret=False):
        if not stmts:
            return f"some {m}"
        st, rest = stmts[0], stmts[1:]
        k = st[0]
        if k == "block":
            return self.compile(st[1] + rest, m, depth, boolret)
        if k == "assert":
            if st[1] is None:
                raise TranslateError(f"{self.fname}: assertion outside the vocabulary: {st[2]}")
            c = self.ev(st[1], m)
            if c[0] != "bool":
                raise TranslateError(f"{self.fname}: assertion is not a plain condition")
            return f"(if {c[1]} then {self.compile(rest, m, depth, boolret)} else none)"
        if k == "if":
            _, c, th, el, cx, ln = st
            cs = self.strip(c)
            if cs[0] in ("==", "!=") and len(cs) == 3 and {self.tag(cs[1]), self.tag(cs[2])} == {"this", "&other"}:
                self.same_object = True
                cond = "sameObject" if cs[0] == "==" else "(!sameObject)"
            else:
                cv = self.ev(c, m)
                if cv[0] != "bool":
                    raise TranslateError(f"{self.fname}: condition is not a plain condition")
                cond = cv[1]
            a = self.compile([th] + rest, m, depth, boolret)
            b = self.compile(([el] if el is not None else []) + rest, m, depth, boolret)
            return f"(if {cond} then {a} else {b})"
        if k == "return" and not boolret and st[1] is not None and self.strip(st[1])[0] == "call" and self.kind == "aref":
            return f"({self.effect(st[1], m)})"
        if k == "return":
            if boolret:
                v = self.ev(st[1], m)
                if v[0] == "bool":
                    return f"some {v[1]}"
                if v[0] == "obool":
                    return v[1]
                raise TranslateError(f"{self.fname}: return of {v[0]}")
            return f"some {m}"
        if k == "decl" and st[3] in ("copy", "init") and len(st[4]) == 1:
            self.extra = dict(self.extra)
            self.extra[st[1]] = self.ev(st[4][0], m)
            return self.compile(rest, m, depth, boolret)
        if k == "assign" and st[1] == "=":
            l, r = self.ev(st[2], m), self.ev(st[3], m)
            if l[0] == "er" and r[0] == "er":
                eff = f"ElemRange.assign {l[1]} {r[1]} {m}"
            else:
                raise TranslateError(f"{self.fname}: assignment {l[0]} = {r[0]}")
        elif k == "expr":
            eff = self.effect(st[1], m)
        else:
            raise TranslateError(f"{self.fname}: statement form {k}")
        m2 = f"m{depth + 1}"
        tail = self.compile(rest, m2, depth + 1, boolret)
        if tail == f"some {m2}":
            return f"({eff})"
        return f"(({eff}).bind fun {m2} => {tail})"

    def tag(self, e):
        e0 = e
        while e0[0] == "paren":
            e0 = e0[1]
        if e0 == ("id", "this", None):
            return "this"
        if e0[0] == "un&" and self.who(e0[1]) == self.other:
            return "&other"
        if e0[0] == "call" and e0[1][0] == "id" and e0[1][1] == "std::addressof" and len(e0[2]) == 1 and self.who(e0[2][0]) == self.other:
            return "&other"
        return "?"


def funcs(region, cpp):
    src = GL.source(REL)
    lo, hi = GL.class_region(src, REGIONS[region])
    if cpp.startswith("operator"):
        return GL.member_functions_op(src, lo, hi, cpp[8:])
    return GL.member_functions(src, lo, hi, cpp)


def norm(p):
    return " ".join(p.split())


# (lean name, region, cpp, regex on the normalised parameter list, regex on qualifiers or None, kind, boolret)
TARGETS = [
    ("ER_assign", "erange", "operator=", r"^OtherElementRange&& other$", None, "erange", False),
    ("ER_assign_rv", "erange", "operator=", r"^elements_range_t && other$", None, "erange", False),
    ("ER_assign_vals", "erange", "operator=", r"^std::initializer_list<value_type> values$", r"^&$", "erange", False),
    ("ER_swap", "erange", "swap", r"^elements_range_t<OP, OL>&&? other$", None, "erange", False),
    ("ER_eq", "erange", "operator==", r"^elements_range_t<OP, OL> const& other$", None, "erange", True),
    ("ER_ne", "erange", "operator!=", r"^elements_range_t<OP, OL> const& other$", None, "erange", True),
    ("AR_copy_elements", "aref", "copy_elements_", r"^It first$", None, "aref", False),
    ("AR_assign", "aref", "operator=", r"^array_ref const& other$", r"^&$", "aref", False),
    ("AR_assign_other_rv", "aref", "operator=", r"^array_ref<TT, D, As\.\.\.> const& other$", r"^&&$", "aref", False),
    ("AR_assign_T", "aref", "operator=", r"^array_ref<TT, DD, As\.\.\.> const& other$", r"^&$", "aref", False),
    ("AR_eq", "aref", "operator==", r"^array_ref const& self, array_ref<TT, D, As\.\.\.> const& other$", None, "aref", True),
    ("AR_ne", "aref", "operator!=", r"^array_ref const& self, array_ref<TT, D, As\.\.\.> const& other$", None, "aref", True),
    ("SV_assign_same", "subD", "operator=", r"^const_subarray<T, D, ElementPtr, Layout> const& other$", r"^&$", "view", False),
    ("SV_assign_other", "subD", "operator=", r"^const_subarray<TT, D, As\.\.\.> const& other$", r"^&$", "view", False),
    ("SV_assign_other_rv", "subD", "operator=", r"^const_subarray<TT, D, As\.\.\.> const& other$", r"^&&$", "view", False),
    ("SV_assign_from_rv", "subD", "operator=", r"^const_subarray<TT, D, As\.\.\.> && other$", r"^&$", "view", False),
    ("SV_assign_from_sub_rv", "subD", "operator=", r"^subarray<TT, D, As\.\.\.>&& other$", r"^&$", "view", False),
    ("SV_assign_copy", "subD", "operator=", r"^subarray const& other$", r"^&$", "view", False),
    ("SV_assign_move", "subD", "operator=", r"^subarray&& other$", r"^& noexcept$", "view", False),
    ("SV_swap", "subD", "swap", r"^subarray&& other$", r"^&& noexcept$", "view", False),
    ("V_eq", "viewD", "operator==", r"const_subarray(<TT, D, As\.\.\.>)? const& other$", None, "view", True),
    ("V_ne", "viewD", "operator!=", r"const_subarray(<TT, D, As\.\.\.>)? const& other$", None, "view", True),
    ("V_lex", "viewD", "lexicographical_compare", r"^const_subarray const& self, const_subarray const& other$", None, "view", True),
    ("V_lt_other", "viewD", "operator<", r"^const_subarray const& self, const_subarray<TT, D, As\.\.\.> const& other$", None, "view", True),
    ("V1_lex", "view1", "lexicographical_compare_", r"^A1 const& self, A2 const& other$", None, "view", True),
    ("V_lt", "viewD", "operator<", r"^const_subarray const& other$", None, "view", True),
    ("V_le", "viewD", "operator<=", r"^const_subarray const& other$", None, "view", True),
    ("V_gt", "viewD", "operator>", r"^const_subarray const& other$", None, "view", True),
    ("V1_eq", "view1", "operator==", r"^const_subarray const& self, const_subarray(<OtherT, 1, OtherEP, OtherLayout>)? const& other$", None, "view", True),
    ("V1_ne", "view1", "operator!=", r"^const_subarray const& self, const_subarray(<TT, 1, EEPP, LL>)? const& other$", None, "view", True),
    ("V1_lt", "view1", "operator<", r"^const_subarray const& self, const_subarray(<TT, 1, EEPP, LL>)? const& other$", None, "view", True),
    ("V1_gt", "view1", "operator>", r"^const_subarray const& self, const_subarray const& other$", None, "view", True),
    ("V1_le", "view1", "operator<=", r"^const_subarray const& self, const_subarray const& other$", None, "view", True),
    ("V1_ge", "view1", "operator>=", r"^const_subarray const& self, const_subarray const& other$", None, "view", True),
]


def translate(lean_name, region, cpp, prx, qrx, kind, boolret):
    cands = [f for f in funcs(region, cpp) if re.search(prx, norm(f["params"])) and (qrx is None or re.search(qrx, f["quals"]))]
    if not cands:
        raise TranslateError(f"{REL}:{cpp}: no definition with parameters /{prx}/ and qualifiers /{qrx}/")
    out = []
    for fn in cands:
        this, other = ("dst", "src") if not boolret else ("self", "other")
        extra = {}
        if kind == "aref" and cpp == "copy_elements_":
            extra["first"] = ("ptr", "first")
        if "values" in fn["params"]:
            extra["values"] = ("vals", "vals")
        c = C(kind, this, other, f"{REL}:{fn['line']}:{cpp}", extra)
        ast = GL.P(GL.lex("{" + fn["body"] + "}", fn["line"])).block()
        body = c.compile(ast[1], "m", 0, boolret)
        ty = "ElemRange" if kind == "erange" else "View"
        binders = f"({this} : {ty})" + ("" if ("values" in extra or "first" in extra) else f" ({other} : {ty})") + (" (vals : List α)" if "values" in extra else "") + (" (first : Int)" if "first" in extra else "")
        binders += " (m : Mem α)" + (" (sameObject : Bool)" if c.same_object else "") + (" (ltE : α → α → Bool)" if c.uses_lt else "")
        ret = "Option Bool" if boolret else "Option (Mem α)"
        inst = " [DecidableEq α]" if boolret else ""
        out.append((f"def {lean_name} {{α : Type}}{inst} {binders} : {ret} :=\n  {body}\n", fn))
    if len(set(x[0] for x in out)) != 1:
        raise TranslateError(f"{REL}:{cpp}: the overloads at lines {[x[1]['line'] for x in out]} differ:\n" + "\n".join(x[0] for x in out))
    fn = out[0][1]
    doc = f"/-- {REL}:{', '.join(str(x[1]['line']) for x in out)}  `{cpp}({norm(fn['params'])}) {fn['quals']}` -/"
    return doc + "\n" + out[0][0], dict(lean=lean_name, file=REL, lines=[x[1]["line"] for x in out], extents=[[x[1]["line"], x[1]["end_line"]] for x in out], cpp=cpp)


PRELUDE = """/-
  GENERATED by tools/gen_store.py from $VERIF_REPO/include/boost/multi/array_ref.hpp — DO NOT EDIT.
  Assignment, swap and comparison of views and of flat element ranges, in the `Option` monad over the memory (an assertion
  failure is `none`).  `MultiProofs/GenTieStore.lean` proves each definition equal to the hand model `MultiModel/Store.lean`.
-/
import MultiModel.Store

set_option linter.unusedVariables false

namespace Multi.Gen
open Multi

/-- `adl_lexicographical_compare(a.begin(), a.end(), b.begin(), b.end())` over the rows of two views of one dimensionality:
    `begin()` has pointer `base` and stride `stride()`, `end() - begin()` is `size()`; `*it1 < *it2` on two rows is the
    library's `<` of the sub-views again (`lexCompare` on the sub-layouts) -/
def lexRowsOf {α : Type} (ltE : α → α → Bool) (m : Mem α) (a b : View) : Bool :=
  match a.lay, b.lay with
  | d1 :: s1, d2 :: s2 =>
    lexRows (fun p q => lexCompare ltE m s1 p s2 q) (fun q p => lexCompare ltE m s2 q s1 p)
      d1.size.toNat d2.size.toNat a.base d1.stride b.base d2.stride
  | _, _ => false

"""


def main():
    out, meta, errors = [PRELUDE], [], []
    for t in TARGETS:
        try:
            txt, m = translate(*t)
            out.append(txt)
            meta.append(m)
        except TranslateError as ex:
            errors.append(f"{t[0]}: {ex}")
            out.append(f"/-- NOT TRANSLATED: {str(ex)[:200].replace('-/', '- /')} -/\ndef {t[0]}_untranslated : Unit := ()\n")
    out.append("end Multi.Gen\n")
    text = "\n".join(out)
    old = open(OUT).read() if os.path.exists(OUT) else None
    if old != text:
        open(OUT, "w").write(text)
    json.dump({"functions": meta, "errors": errors}, open(OUTJ, "w"), indent=1)
    print(f"gen_store: {len(meta)} functions translated, {len(errors)} errors; {'unchanged' if old == text else 'REWRITTEN'} {os.path.relpath(OUT, HERE)}")
    for e in errors:
        print("gen_store: ERROR", e)
    return 2 if errors else 0


if __name__ == "__main__":
    sys.exit(main())
