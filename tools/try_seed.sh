#!/bin/sh
# usage: try_seed.sh <patch-file> <property-id>...   applies the patch to /repo, runs the checks, reverts /repo.
patch="$1"; shift
git -C /repo apply "$patch" || { echo "patch does not apply"; exit 2; }
rm -rf /verif/evidence/replay
for p in "$@"; do (cd /verif && ./check $p 2>&1 | grep -E "VIOLATION|KNOWN|obligations" | head -6); done
git -C /repo checkout -- .
git -C /verif checkout -- lean/MultiModel/Gen 2>/dev/null
# restore evidence files to the clean-tree state
for p in "$@"; do (cd /verif && git checkout -- evidence/$p.json 2>/dev/null); done
