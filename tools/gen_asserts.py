#!/usr/bin/env python3
"""Translator for C20: extracts every assertion site of the anchored headers of /repo (VERIF_REPO overrides),
classifies each by the model predicate that transcribes it, checks that assertion expressions are pure, and
 (default)   regenerates lean/MultiModel/Gen/Asserts.lean and compares the inventory with the committed snapshot
             tools/assert_inventory.json; exits 1 (printing the difference) when a site was added, removed or edited,
             when a site cannot be classified, or when an assertion expression has a side effect;
 --update    rewrites the snapshot from the current source (after the new site has been reviewed and mapped)."""
import os, re, sys, json

HERE = os.path.dirname(os.path.dirname(os.path.abspath(__file__)))
REPO = os.environ.get("VERIF_REPO", "/repo")
FILES = ["include/boost/multi/array_ref.hpp", "include/boost/multi/array.hpp", "include/boost/multi/detail/layout.hpp",
         "include/boost/multi/detail/operators.hpp", "include/boost/multi/detail/index_range.hpp"]

# ordered (regex on the whitespace-free expression, class).  Classes are the constructors of Multi.Gen.AssertClass.
RULES = [
    (r"stride\(\)==0\|\|.*extension\(\)\.contains\(idx\)", "indexBounds"),
    (r"first==last\)?\|\|this->extension\(\)\.contains", "sliceBounds"),
    (r"^(n|count)<=this->size\(\)$", "takeDropBound"),
    (r"^(n|size|count)!=0$", "partitionDivides"),
    (r"nelems\(\)%(n|size)\)?==0", "partitionDivides"),
    (r"^this->size\(\)%(count|size|2)==0$", "partitionDivides"),
    (r"^(offset_|nelems_)%stride_==0$", "extensionDivisible"),
    (r"^\(?(stride_\*num|num\*stride_)\)?%den==0$|^offset_==0$|^\(?(offset_\*num|num\*offset_)\)?%den==0$", "scalePrecondition"),
    (r"^(this->)?stride\(\)!=0$|^other\.stride\(\)!=0$|^stride_!=0$|^self\.stride_!=0$|^ilv\.size\(\)\|\|\(?this->stride\(\)!=0\)?$", "strideNonzero"),
    (r"extensions?\(\)==.*extensions?\(|extensions\(other\)==|extension\(\)==other\.extension\(\)|equal_extensions_if_", "equalExtents"),
    (r"size\(\)==other\.size\(\)|num_elements\(\)==other\.num_elements\(\)|values\.size\(\)\)?==|==(static_cast<[^>]*>\()?values\.size\(\)|adl_size\(rng\)|std::distance\(first,last\)==this->size\(\)|new_layout\.num_elements\(\)==this->num_elements\(\)", "equalCount"),
    (r"stride_==other\.stride_|stride\(\)==other\.stride\(\)|layout\(\)==.*layout\(\)|layout_==other\.layout_|layout_\.nelems\(\)==other\.layout_\.nelems\(\)|base_==other\.base_&&l_==other\.l_|\(ptr_-other\.ptr_\)%stride\(\)==0", "iterCompatible"),
    (r"^sub_num_elements!=0$|^n==0$", "fromLinearGuard"),
    (r"^idx<this->num_elements\(\)$|^!is_empty\(\)$", "elementsIndexBound"),
    (r"^this->num_elements\(\)==1$|^other\.num_elements\(\)<=1$", "zeroDimCount"),
    (r"sizeof\(T\)==sizeof\(T2\)|sizeof\(T\)\)?(\*this->layout\(\)\.stride\(\))?%static_cast<size_type>\(sizeof\(T2\)\)==0", "reinterpretSizes"),
    (r"^self\.self\(\)>\w+$|^\w+<self\.self\(\)$", "postIncrementOrder"),
    (r"this->base_\|\|", "nullBaseOffset"),
    (r"^this->size\(\)==0$", "defaultEmpty"),
    (r"^0$", "unreachable"),
]

IMPURE = re.compile(r"\+\+|--|(?<![=!<>])=(?!=)")


def strip_comments(src):
    out = []
    i, n = 0, len(src)
    while i < n:
        if src.startswith("//", i):
            j = src.find("\n", i)
            j = n if j < 0 else j
            i = j
        elif src.startswith("/*", i):
            j = src.find("*/", i + 2)
            j = n - 2 if j < 0 else j
            out.append("\n" * src.count("\n", i, j + 2))
            i = j + 2
        elif src[i] == '"':
            j = i + 1
            while j < n and src[j] != '"':
                j += 2 if src[j] == "\\" else 1
            out.append('""')
            i = j + 1
        else:
            out.append(src[i])
            i += 1
    return "".join(out)


FUNC = re.compile(r"([A-Za-z_~]\w*|operator\s*[^\s(]{1,3})\s*\(")
KEYWORDS = {"if", "for", "while", "switch", "return", "assert", "BOOST_MULTI_ASSERT", "BOOST_MULTI_ACCESS_ASSERT", "sizeof", "decltype", "static_cast", "defined", "static_assert", "noexcept", "enable_if_t", "declval"}


def enclosing(lines, k, want_line=False):
    for j in range(k - 1, max(-1, k - 80), -1):
        l = lines[j]
        if l.rstrip().endswith(";") and "{" not in l:
            continue
        if re.search(r"\b(auto|void|bool|explicit|constexpr|static_array|array|friend)\b", l) and "(" in l:
            names = [m.group(1).replace(" ", "") for m in FUNC.finditer(l) if m.group(1) not in KEYWORDS]
            if names:
                return (names[0], j) if want_line else names[0]
    return ("?", k) if want_line else "?"


LOCAL_DECL = re.compile(r"(?:^\s*|[;{]\s*)(?:auto|[A-Za-z_][\w:]*)(?:\s+const)?\s*(?:&&?|\*)?\s+([a-z_]\w*)\s*(?:=[^=]|\{)")


def rename_locals(lines, k, expr):
    """locals declared (`T name = …;`) between the header of the enclosing function and the assertion are replaced by
    positional names, so that renaming one is not an edit of the assertion"""
    _, j = enclosing(lines, k, True)
    names = []
    for l in lines[j:k]:
        for m in LOCAL_DECL.finditer(l):
            if m.group(1) not in names and m.group(1) not in ("this", "other", "self"):
                names.append(m.group(1))
    for n, nm in enumerate(names, 1):
        expr = re.sub(r"(?<![\w.])(?<!->)" + re.escape(nm) + r"(?![\w(])", f"_local{n}", expr)
    return expr


def extract(path):
    src = strip_comments(open(path).read())
    lines = src.split("\n")
    sites = []
    for m in re.finditer(r"(?<![A-Za-z_])(BOOST_MULTI_ASSERT|BOOST_MULTI_ACCESS_ASSERT|assert)\s*\(", src):
        if src[max(0, m.start() - 7):m.start()] == "static_":
            continue
        line = src.count("\n", 0, m.start())
        if lines[line].lstrip().startswith("#"):
            continue  # the macro definitions themselves
        depth, j = 1, m.end()
        while j < len(src) and depth:
            depth += {"(": 1, ")": -1}.get(src[j], 0)
            j += 1
        expr = re.sub(r"\s+", "", src[m.end():j - 1])
        expr = re.sub(r"&&\(\"\"\)$", "", expr)  # trailing && ("message")
        sites.append({"line": line + 1, "fn": enclosing(lines, line), "expr": canon_expr(expr), "kexpr": canon_expr(rename_locals(lines, line, expr)), "raw": expr, "macro": m.group(1)})
    return sites


# ---- canonical text of an assertion expression: parsed with the translators' expression parser and printed back without
#      redundant parentheses, with `>`/`>=` turned into `<`/`<=`, the operands of `==` `!=` `+` `*` in one canonical order
#      (numerals last, terms of `other` after the receiver's) and without `&& "message"` conjuncts — so that a reworded message,
#      `0 == x`, `size() >= n` or an added pair of parentheses is the SAME inventory entry.  `&&`/`||` keep their order (it can
#      carry a guard).  An expression the parser cannot read keeps its raw text.
sys.path.insert(0, os.path.dirname(os.path.abspath(__file__)))
try:
    import gen_layout as _GL
except Exception:  # noqa
    _GL = None

_PREC = {"?:": 1, "||": 2, "&&": 3, "==": 4, "!=": 4, "<": 5, "<=": 5, ">": 5, ">=": 5, "+": 6, "-": 6, "*": 7, "/": 7, "%": 7}


def _show(e, parent=0):
    k = e[0]
    if k == "paren":
        return _show(e[1], parent)
    if k == "num":
        return str(e[1])
    if k == "str":
        return '""'
    if k == "id":
        return e[1] + (f"<{e[2]}>" if e[2] else "")
    if k == "braces":
        return "{" + ",".join(_show(x) for x in e[1]) + "}"
    if k == "construct":
        return e[1] + "{" + ",".join(_show(x) for x in e[3]) + "}"
    if k == "call":
        return _show(e[1], 9) + "(" + ",".join(_show(x) for x in e[2]) + ")"
    if k == "mem":
        return _show(e[1], 9) + "." + e[2] if not (e[1][0] == "id" and e[1][1] == "this") else "this->" + e[2]
    if k == "index":
        return _show(e[1], 9) + "[" + _show(e[2]) + "]"
    if k == "pack":
        return _show(e[1], 9) + "..."
    if k.startswith("un"):
        return k[2:] + _show(e[1], 8)
    if k.startswith("pre"):
        return k[3:] + _show(e[1], 8)
    if k == "?:":
        t = _show(e[1], 2) + "?" + _show(e[2], 2) + ":" + _show(e[3], 1)
        return "(" + t + ")" if parent > 1 else t
    if k in _PREC:
        a, b, op = e[1], e[2], k
        if op == "&&":
            # drop "message" conjuncts
            if _strip(b)[0] == "str":
                return _show(a, parent)
            if _strip(a)[0] == "str":
                return _show(b, parent)
        if op in (">", ">="):
            a, b, op = b, a, {">": "<", ">=": "<="}[op]
        x, y = _show(a, _PREC[op]), _show(b, _PREC[op] + (0 if op in ("+", "*", "&&", "||") else 1))
        if op in ("==", "!=", "+", "*"):
            x2, y2 = _GL.canon2(x, y)
            if (x2, y2) != (x, y):
                x, y = _show(b, _PREC[op]), _show(a, _PREC[op] + (0 if op in ("+", "*") else 1))
        t = x + op + y
        return "(" + t + ")" if _PREC[op] < parent else t
    raise ValueError(k)


def _strip(e):
    while e[0] == "paren":
        e = e[1]
    return e


def canon_expr(expr):
    if _GL is None or "{" in expr or "<(" in expr:
        return expr
    try:
        p = _GL.P(_GL.lex(expr))
        e = p.expr()
        if p.peek()[0] != "eof":
            return expr
        return _show(e)
    except Exception:  # noqa
        return expr


def classify(expr):
    for rx, cls in RULES:
        if re.search(rx, expr):
            return cls
    return "UNMAPPED"


def translated_extents():
    """{file: [(first line, last line)]} of the definitions regenerated by the translators (lean/MultiModel/Gen/*.functions.json):
    the assertions inside them are part of the generated `<name>_asserts` definitions, tied to the model by proof — for
    those sites the inventory keeps the class but not the text (a renamed local in such an assertion is not an edit)"""
    out = {}
    d = os.path.join(HERE, "lean", "MultiModel", "Gen")
    for f in sorted(os.listdir(d)) if os.path.isdir(d) else []:
        if f.endswith(".functions.json"):
            try:
                for fn in json.load(open(os.path.join(d, f))).get("functions", []):
                    for a, b in fn.get("extents", []):
                        out.setdefault("include/boost/multi/" + fn["file"], []).append((a, b))
            except Exception:  # noqa
                pass
    return out


def main():
    inv = []
    tied = translated_extents()
    for f in FILES:
        p = os.path.join(REPO, f)
        for s in extract(p):
            s["file"] = f
            s["cls"] = classify(s["expr"])
            s["pure"] = not IMPURE.search(s["expr"])
            if any(a <= s["line"] <= b for a, b in tied.get(f, [])) and s["cls"] != "UNMAPPED":
                s["kexpr"] = "<tied by a translator: " + s["cls"] + ">"
            inv.append(s)
    snap_path = os.path.join(HERE, "tools", "assert_inventory.json")
    key = lambda s: (s["file"], s["fn"], s["kexpr"], s["cls"])   # kexpr: canonical text with positional names for locals
    if "--update" in sys.argv:
        json.dump(sorted([dict(file=s["file"], fn=s["fn"], expr=s["kexpr"], cls=s["cls"]) for s in inv], key=lambda d: (d["file"], d["fn"], d["expr"])), open(snap_path, "w"), indent=0)
        print(f"snapshot updated: {len(inv)} sites")
    # Lean table
    classes = sorted({r[1] for r in RULES})
    out = ["/-", "  GENERATED by tools/gen_asserts.py from the assertion sites of /repo's headers — do not edit.", "-/", "namespace Multi.Gen", "",
           "inductive AssertClass where"] + [f"  | {c}" for c in classes] + ["  | unmapped", "deriving DecidableEq, Repr", "",
           "structure AssertSite where", "  file : String", "  line : Nat", "  fn : String", "  cls : AssertClass", "  pure : Bool", "deriving Repr", ""]
    chunks = [inv[i:i + 40] for i in range(0, len(inv), 40)]
    for k, ch in enumerate(chunks):
        out.append(f"def assertSites{k} : List AssertSite := [")
        out.append(",\n".join(f'  ⟨"{s["file"]}", {s["line"]}, "{s["fn"]}", .{s["cls"] if s["cls"] != "UNMAPPED" else "unmapped"}, {"true" if s["pure"] else "false"}⟩' for s in ch))
        out.append("]\n")
    out.append("def assertSites : List AssertSite := " + " ++ ".join(f"assertSites{k}" for k in range(len(chunks))) if chunks else "def assertSites : List AssertSite := []")
    out.append("\nend Multi.Gen")
    gen = os.path.join(HERE, "lean", "MultiModel", "Gen", "Asserts.lean")
    os.makedirs(os.path.dirname(gen), exist_ok=True)
    new = "\n".join(out) + "\n"
    if not os.path.exists(gen) or open(gen).read() != new:
        open(gen, "w").write(new)
    # comparison with the snapshot
    problems = []
    for s in inv:
        if s["cls"] == "UNMAPPED":
            problems.append(f"unclassified assertion {s['file']}:{s['line']} in {s['fn']}: {s['expr']}")
        if not s["pure"]:
            problems.append(f"assertion with a side effect {s['file']}:{s['line']}: {s['expr']}")
    if os.path.exists(snap_path):
        snap = json.load(open(snap_path))
        from collections import Counter
        a = Counter((d["file"], d["fn"], d["expr"], d["cls"]) for d in snap)
        b = Counter(key(s) for s in inv)
        for k_, c in (a - b).items():
            problems.append(f"assertion removed or edited (was in the reviewed inventory x{c}): {k_[0]} {k_[1]}: {k_[2]}")
        for k_, c in (b - a).items():
            problems.append(f"assertion added or edited (not in the reviewed inventory x{c}): {k_[0]} {k_[1]}: {k_[2]}")
    else:
        problems.append("no snapshot tools/assert_inventory.json")
    json.dump({"sites": len(inv), "by_class": {c: sum(1 for s in inv if s["cls"] == c) for c in sorted({s["cls"] for s in inv})}, "problems": problems},
              open(os.path.join(HERE, ".build", "asserts_now.json") if os.path.isdir(os.path.join(HERE, ".build")) else os.devnull, "w"), indent=1)
    for p in problems:
        print(p)
    print(f"{len(inv)} assertion sites, {len(problems)} problems")
    return 1 if problems else 0


if __name__ == "__main__":
    sys.exit(main())
