#!/bin/sh
# Rebuild and run correaa/boost-multi's own test suite (guard off). Exit status is ctest's.
export OMPI_ALLOW_RUN_AS_ROOT=1 OMPI_ALLOW_RUN_AS_ROOT_CONFIRM=1
cmake --build /repo/_build -j16 >/tmp/baseline_build.log 2>&1 || { tail -30 /tmp/baseline_build.log; exit 2; }
ctest --test-dir /repo/_build -j8 --timeout 900 2>&1 | tail -5
